package main

import (
	"fmt"
	"go/token"
	"go/types"
	"strings"

	"golang.org/x/tools/go/ssa"
)

func init() { register("C13", checkC13) }

func checkC13(p *Prog, res *Result, tier string) {
	r := p.roles()
	sp := p.ssaPkg("pkg/backend/scanner")
	res.Explanation = "Border adjustment and result merging are value-level and not decided; decided is the structure around them. R1 every implementation of the result-receiver interface copies, in fork(), each field that its constructor sets and no method reassigns (configuration such as the read revision, the limit, the output stream). R2 the stream producer sends exactly one terminator carrying the scan's error after the scan returned and closes the channel after it on every path (deferred close); data batches are literals with More=true, the terminator More=false. R3 forked receivers are stored by partition index and merged in index order after WaitGroup.Wait; each worker goroutine writes only its own index of the shared slices. R4 every streamed batch carries the receiver's read revision in its header. R5 border contiguity: in the partition-adjusting function the start border of a partition is copied from the end border of its predecessor in the same slice that receives the adjusted end borders, and an end border is not modified after it has been propagated. R6 every scan attempt starts from an empty receiver: the function that creates the engine iterator resets the receiver before appending, and every receiver type that accumulates state in append has its own reset that re-initialises that state. R7 partitions reported by an engine are clamped into the requested interval (C11-R7)."
	res.NotDecided = "the border adjustment itself (which internal key a split border is moved to), merge results for all partitionings, limit handling across partitions."
	res.Assumptions = []string{"sync.WaitGroup semantics"}
	res.rule("C13-R1", "fork() copies every configuration field of the receiver", 2)
	res.rule("C13-R2", "one terminator after the scan, channel closed after it on all paths; More flags constant", 4)
	res.rule("C13-R3", "results stored by partition index, merged in index order after Wait", 2)
	res.rule("C13-R4", "streamed batches name the receiver's read revision", 2)
	res.rule("C13-R5", "adjusted borders stay contiguous: start(i) = end(i-1) of the adjusted slice, end not modified after propagation", 2)
	res.rule("C13-R6", "each scan attempt resets the receiver; accumulating receivers implement their own reset", 3)
	res.rule("C13-R8", "on the scan path the error of the engine iterator, of a partition worker and of the retry loop is returned (as is or wrapped) unless found nil or classified: a failed partition fails the read", 6)
	res.rule("C13-R10", "a batch handed to the stream is not written by the receiver afterwards (C05-R9): a refilled batch loses and repeats keys depending on how many fit a partition", 1)
	res.rule("C13-R7", "engine partitions are clamped into the requested interval (C11-R7)", 3)
	res.rule("C13-R11", "the less function of every sort.Slice indexes the slice that is being sorted (the positions it is given are positions of that slice as it is permuted): the partition borders and the compaction borders are ordered by a comparison of their own elements", 2)
	res.rule("C13-R9", "a partition border of the engine is advertised to clients (who stream every [border, next border) as a scan of its own) only as the first start / the last end, when it is not a version key, or re-encoded as the index key of the key it splits", 2)

	recvIface := p.namedType("pkg/backend/scanner", "resultReceiver")
	it := recvIface.Underlying().(*types.Interface)
	method := func(name string) *types.Func {
		for i := 0; i < it.NumMethods(); i++ {
			if it.Method(i).Name() == name {
				return it.Method(i)
			}
		}
		brokenf("resultReceiver has no method %s", name)
		return nil
	}
	forkM, appendM, resetM, mergeM := method("fork"), method("append"), method("reset"), method("merge")

	// receiver implementation types
	var impls []*types.Named
	for _, m := range sp.Members {
		t, ok := m.(*ssa.Type)
		if !ok {
			continue
		}
		n, _ := t.Type().(*types.Named)
		if n == nil {
			continue
		}
		if _, isStruct := n.Underlying().(*types.Struct); isStruct && types.Implements(types.NewPointer(n), it) {
			impls = append(impls, n)
		}
	}
	ownMethod := func(n *types.Named, m *types.Func) *ssa.Function {
		sel := p.SSA.MethodSets.MethodSet(types.NewPointer(n)).Lookup(m.Pkg(), m.Name())
		if sel == nil {
			return nil
		}
		f := p.SSA.MethodValue(sel)
		if f == nil || f.Synthetic != "" {
			return nil // promoted from an embedded type
		}
		return f
	}

	// ---- R1 ----
	for _, n := range impls {
		st := n.Underlying().(*types.Struct)
		fork := ownMethod(n, forkM)
		// configuration fields: stored in a constructor (function returning *n, or composite literal outside methods of n)
		// and never stored in a method of n
		for i := 0; i < st.NumFields(); i++ {
			fv := st.Field(i)
			if fv.Embedded() {
				continue
			}
			inCtor, inMethod := false, false
			for _, s := range p.fields().stores[fv] {
				f := s.Parent()
				isMeth := f.Signature.Recv() != nil && isNamed(f.Signature.Recv().Type(), n.Obj().Pkg().Path(), n.Obj().Name())
				if isMeth && f != fork {
					// a store into the receiver itself (not into a fresh object)
					if !isFreshObject(s.Addr.(*ssa.FieldAddr).X) {
						inMethod = true
					}
				} else if !isMeth {
					inCtor = true
				}
			}
			if !inCtor || inMethod {
				continue
			}
			construct := fmt.Sprintf("%s.fork copies %s", n.Obj().Name(), fv.Name())
			if fork == nil {
				res.bad("C13-R1", construct, "-", "the receiver type has configuration but no fork of its own: partition workers get a receiver without it")
				continue
			}
			copied := false
			for _, s := range p.fields().stores[fv] {
				if s.Parent() != fork {
					continue
				}
				// value = load of the same field of the receiver
				if ld, ok := resolve(s.Val).(*ssa.UnOp); ok {
					if fa, ok := ld.X.(*ssa.FieldAddr); ok && fieldOf(fa) == fv && resolve(fa.X) == ssa.Value(fork.Params[0]) {
						copied = true
					}
				}
			}
			// or the fork goes through a constructor whose argument for this field is the receiver's own field
			if !copied {
				for _, b := range fork.Blocks {
					ret, ok := b.Instrs[len(b.Instrs)-1].(*ssa.Return)
					if !ok || len(ret.Results) == 0 {
						continue
					}
					rv := resolve(ret.Results[0])
					if mi, ok := rv.(*ssa.MakeInterface); ok {
						rv = mi.X
					}
					if fvVal, ok := p.builtFieldValue(rv, fv); ok {
						if ld, ok := resolve(fvVal).(*ssa.UnOp); ok {
							if fa, ok := ld.X.(*ssa.FieldAddr); ok && fieldOf(fa) == fv && resolve(fa.X) == ssa.Value(fork.Params[0]) {
								copied = true
							}
						}
					}
				}
			}
			if copied {
				res.ok("C13-R1", construct, p.pos(fork.Pos()), "forked receiver inherits the field")
			} else {
				res.bad("C13-R1", construct, p.pos(fork.Pos()), fmt.Sprintf("fork() drops the configuration field %s: the per-partition receivers that produce all the data run without it (e.g. batches stamped with revision 0, limit lost)", fv.Name()))
			}
		}
	}

	// ---- R2 ----
	streamResp := p.namedType("github.com/kubewharf/kubebrain-client/api/v2rpc", "StreamRangeResponse")
	rangeResp := p.namedType("github.com/kubewharf/kubebrain-client/api/v2rpc", "RangeResponse")
	var moreF *types.Var
	rs := rangeResp.Underlying().(*types.Struct)
	for i := 0; i < rs.NumFields(); i++ {
		if rs.Field(i).Name() == "More" {
			moreF = rs.Field(i)
		}
	}
	// terminator constructor: function in scanner returning *StreamRangeResponse with (uint64, error) params
	var termCtor *ssa.Function
	for _, f := range p.AllFuncs {
		if f.Pkg == sp && f.Signature.Recv() == nil && f.Signature.Results().Len() == 1 &&
			types.Identical(f.Signature.Results().At(0).Type(), types.NewPointer(streamResp)) && errorParamIndex(f) >= 0 {
			termCtor = f
		}
	}
	scanFn := (*ssa.Function)(nil)
	isWGWait := func(c ssa.CallInstruction) bool {
		sc := c.Common().StaticCallee()
		return sc != nil && sc.Name() == "Wait" && sc.Signature.Recv() != nil && isNamed(sc.Signature.Recv().Type(), "sync", "WaitGroup")
	}
	// the parallel scan driver: the scanner function that (itself or through helpers of the package) starts goroutines
	// and waits for them on a WaitGroup, and none of whose helpers does both already
	scanFn, scanRg := parallelScanDriver(p, sp, isWGWait)
	rangeStreamM := p.ifaceMethod("pkg/backend/scanner", "Scanner", "RangeStream")
	for _, rsImpl := range p.implsOf(rangeStreamM) {
		if rsImpl.Pkg != sp {
			continue
		}
		// producer goroutine: the closure started with `go` in RangeStream
		var prod *ssa.Function
		for _, c := range callsIn(rsImpl) {
			if g, ok := c.(*ssa.Go); ok {
				for _, f := range p.calleesOf(g) {
					prod = f
				}
			}
		}
		if prod == nil || termCtor == nil || scanFn == nil {
			res.und("C13-R2", funcName(rsImpl), p.pos(rsImpl.Pos()), "stream producer / terminator constructor / scan function not found")
			continue
		}
		// the stream is handed out only with its producer running: no return of the entry function before the go
		// statement, and the entry function itself does not close the stream (a stream that ends without a terminator
		// leaves the etcd client waiting for the end-of-range event)
		{
			c0 := funcName(rsImpl) + ": every stream it hands out has a producer that ends it with the terminator"
			var goIns ssa.Instruction
			var early ssa.Instruction
			for _, c := range callsIn(rsImpl) {
				if g, ok := c.(*ssa.Go); ok {
					goIns = g
				}
				if call, ok := c.(*ssa.Call); ok {
					if bi, ok := call.Common().Value.(*ssa.Builtin); ok && bi.Name() == "close" {
						early = call
					}
				}
			}
			for _, b := range rsImpl.Blocks {
				if ret, ok := b.Instrs[len(b.Instrs)-1].(*ssa.Return); ok && goIns != nil && !instrDominates(goIns, ret) {
					early = ret
				}
			}
			if early != nil {
				res.bad("C13-R2", c0, p.pos(early.Pos()), "the entry function closes or returns the stream on a path that has not started the producer: that stream ends without a terminator (for two coinciding partition borders, or a range that starts at its own end, the client waits for an end that never comes)")
			} else {
				res.ok("C13-R2", c0, p.pos(rsImpl.Pos()), "the go statement dominates every return; the stream is closed by the producer only")
			}
		}
		var scanCall, termCall *ssa.Call
		var sends []*ssa.Send
		nTerm := 0
		for _, b := range prod.Blocks {
			for _, ins := range b.Instrs {
				switch x := ins.(type) {
				case *ssa.Call:
					if x.Common().StaticCallee() == scanFn {
						scanCall = x
					}
					if x.Common().StaticCallee() == termCtor {
						termCall = x
						nTerm++
					}
				case *ssa.Send:
					sends = append(sends, x)
				}
			}
		}
		construct := funcName(prod) + ": exactly one terminator carrying the scan's error, after the scan"
		switch {
		case scanCall == nil || termCall == nil || nTerm != 1:
			res.bad("C13-R2", construct, p.pos(prod.Pos()), fmt.Sprintf("the stream producer builds %d terminators (expected one, after the scan call)", nTerm))
		default:
			var termSend *ssa.Send
			for _, s := range sends {
				if resolve(s.X) == ssa.Value(termCall) {
					termSend = s
				}
			}
			errArg := termCall.Common().Args[errorParamIndex(termCtor)]
			scanErr := extractsOf(scanCall)[errorResultIndex(scanFn.Signature)]
			switch {
			case termSend == nil:
				res.bad("C13-R2", construct, p.pos(termCall.Pos()), "the terminator is built but not sent")
			case !instrDominates(scanCall, termSend):
				res.bad("C13-R2", construct, p.pos(termSend.Pos()), "the terminator can be sent before the scan has returned")
			case resolve(errArg) != scanErr:
				res.bad("C13-R2", construct, p.pos(termCall.Pos()), "the terminator does not carry the error returned by the scan")
			default:
				// the terminator send is on every path from the scan to the exit
				sp0 := posOf(scanCall)
				ins, _ := searchFrom(sp0.b, sp0.i+1, searchOpts{
					stop: func(i ssa.Instruction) bool { return i == ssa.Instruction(termSend) },
					bad:  func(i ssa.Instruction) bool { _, ok := i.(*ssa.Return); return ok },
				})
				if ins != nil {
					res.bad("C13-R2", construct, p.pos(ins.Pos()), "a path returns after the scan without sending the terminator: the stream ends without one")
				} else if len(sends) != 1 {
					res.bad("C13-R2", construct, p.pos(sends[0].Pos()), fmt.Sprintf("the producer sends %d times on the stream (data batches are sent by the receivers; the producer itself must send only the terminator)", len(sends)))
				} else {
					res.ok("C13-R2", construct, p.pos(termSend.Pos()), "one send of the terminator built from the scan's error, on every path after the scan")
				}
			}
		}
		// channel closed by defer
		construct = funcName(prod) + ": stream closed on every exit (deferred)"
		closed := false
		for _, b := range prod.Blocks {
			for _, ins := range b.Instrs {
				if d, ok := ins.(*ssa.Defer); ok {
					if bi, ok := d.Common().Value.(*ssa.Builtin); ok && bi.Name() == "close" {
						closed = true
					}
				}
			}
		}
		if closed {
			res.ok("C13-R2", construct, p.pos(prod.Pos()), "defer close(stream)")
		} else {
			res.bad("C13-R2", construct, p.pos(prod.Pos()), "the stream is not closed by a deferred close: a panic or early return leaves consumers blocked, or the close can precede the terminator")
		}
	}
	// More flags
	nMore := 0
	for _, s := range p.fields().stores[moreF] {
		f := s.Parent()
		if f.Pkg != sp {
			continue
		}
		nMore++
		k, isConst := s.Val.(*ssa.Const)
		construct := fmt.Sprintf("%s: More flag #%d", funcName(f), nMore)
		want := "true"
		if f == termCtor {
			want = "false"
		}
		if isConst && k.Value != nil && k.Value.String() == want {
			res.ok("C13-R2", construct, p.pos(s.Pos()), "constant "+want)
		} else {
			res.bad("C13-R2", construct, p.pos(s.Pos()), "the More flag of a streamed batch is not the constant "+want+" (the etcd shim keys on it to tell data from the terminator)")
		}
	}

	// ---- R3 ----
	if scanFn != nil {
		// the worker goroutines: whatever the go statements of the driver's region start
		var workers []*ssa.Function
		var goSites []*ssa.Go
		for _, ch := range scanRg.chainsIn(p, func(ins ssa.Instruction) bool { _, ok := ins.(*ssa.Go); return ok }) {
			g := ch.target.(*ssa.Go)
			goSites = append(goSites, g)
			for _, f := range p.calleesOf(g) {
				workers = append(workers, f)
			}
		}
		if len(workers) == 0 {
			res.und("C13-R3", funcName(scanFn), p.pos(scanFn.Pos()), "worker goroutine not found")
		} else {
			for wi, worker := range workers {
				// every element store of the worker into a slice it shares with the other workers (captured, or reached
				// through a parameter object) uses the goroutine's own index parameter
				construct := funcName(worker) + ": writes only its own index of the shared slices"
				bad, n := false, 0
				for _, b := range worker.Blocks {
					for _, ins := range b.Instrs {
						st, ok := ins.(*ssa.Store)
						if !ok {
							continue
						}
						ia, ok := st.Addr.(*ssa.IndexAddr)
						if !ok || !sharedWithSiblings(ia.X) {
							continue
						}
						n++
						prm, fld := ownIndexOf(ia.Index, worker)
						if prm == nil {
							bad = true
							res.bad("C13-R3", construct, p.pos(st.Pos()), "a worker goroutine writes an element of a shared slice at an index other than its own partition index")
							continue
						}
						// the index handed to the goroutine differs from one goroutine to the next: not a constant
						if a := goActual(goSites[wi], prm); a != nil {
							if fld != nil {
								// the index travels in a field of a configuration struct built for this goroutine
								a = structLiteralField(a, fld)
							}
							if a == nil {
								continue
							}
							if _, isConst := resolve(a).(*ssa.Const); isConst {
								bad = true
								res.bad("C13-R3", construct, p.pos(goSites[wi].Pos()), "every worker goroutine is started with the same constant index: they all write the same element of the shared slices")
							}
						}
					}
				}
				if !bad && n > 0 {
					res.ok("C13-R3", construct, p.pos(worker.Pos()), fmt.Sprintf("%d shared-slice stores, all at the goroutine's index parameter", n))
				}
			}
			// what a worker is started with is its own: a variable of the driver that the worker's function literal
			// captured is not written by the driver once a worker may run (in the start loop, or after it): the literal
			// reads the variable when it runs, not when it is started - a configuration struct filled per iteration and
			// captured by reference gives most workers the last partition
			for wi, g := range goSites {
				mc, ok := g.Common().Value.(*ssa.MakeClosure)
				if !ok || wi >= len(workers) {
					continue
				}
				construct := fmt.Sprintf("%s: worker #%d reads no captured variable that the driver keeps writing", funcName(scanFn), wi+1)
				var late ssa.Instruction
				lateVar := ""
				spawn := loopOf(g.Block())
				for _, bnd := range mc.Bindings {
					cell, ok := bnd.(*ssa.Alloc)
					if !ok {
						continue
					}
					// is the cell read by the worker at all?
					var writes []ssa.Instruction
					var collect func(addr ssa.Value, d int)
					collect = func(addr ssa.Value, d int) {
						if d > 3 || addr.Referrers() == nil {
							return
						}
						for _, ref := range *addr.Referrers() {
							switch x := ref.(type) {
							case *ssa.Store:
								if x.Addr == addr && x.Parent() == g.Parent() {
									writes = append(writes, x)
								}
							case *ssa.FieldAddr:
								collect(x, d+1)
							case *ssa.IndexAddr:
								// element stores into a captured array/slice variable are the per-index hand-off (checked above)
							}
						}
					}
					collect(cell, 0)
					for _, w := range writes {
						inLoop := spawn != nil && spawn[w.Block()]
						after := false
						if !inLoop {
							pa := posOf(g)
							hit, _ := searchFrom(pa.b, pa.i+1, searchOpts{bad: func(i ssa.Instruction) bool { return i == w }})
							after = hit != nil
						}
						if inLoop || after {
							late, lateVar = w, cell.Comment
						}
					}
				}
				// .. nor do the workers themselves assign a captured variable (they are many, the variable is one)
				if late == nil && spawn != nil {
					w := workers[wi]
					for _, b := range w.Blocks {
						for _, ins := range b.Instrs {
							st, ok := ins.(*ssa.Store)
							if !ok {
								continue
							}
							addr := st.Addr
							for {
								if fa, ok := addr.(*ssa.FieldAddr); ok {
									addr = fa.X
									continue
								}
								break
							}
							if fv, ok := addr.(*ssa.FreeVar); ok {
								late, lateVar = st, fv.Name()
							}
						}
					}
					if late != nil {
						res.bad("C13-R3", construct, p.pos(late.Pos()), "every worker goroutine assigns the captured variable '"+lateVar+"' of the driver (or a field of it): the workers overwrite each other's value before it is used (a worker scans another worker's partition - keys missing, others twice), and the accesses race")
						continue
					}
				}
				if late != nil {
					res.bad("C13-R3", construct, p.pos(late.Pos()), "the driver writes the variable '"+lateVar+"' that the worker's function literal captured by reference, inside or after the loop that starts the workers: a worker reads whatever the loop has written by the time it runs (another partition's configuration - keys of one partition missing, another returned twice), and the accesses race")
				} else {
					res.ok("C13-R3", construct, p.pos(g.Pos()), "captured variables are written only before the start loop (or element-wise at the worker's index)")
				}
			}
			// merge happens after Wait on every path of the driver (helpers inlined), ranging over the receiver list in
			// index order
			isMerge := func(ins ssa.Instruction) bool {
				c, ok := ins.(ssa.CallInstruction)
				return ok && c.Common().IsInvoke() && c.Common().Method == mergeM
			}
			var wait, merge ssa.Instruction
			for _, ch := range scanRg.chainsIn(p, func(ins ssa.Instruction) bool {
				c, ok := ins.(ssa.CallInstruction)
				return ok && isWGWait(c)
			}) {
				wait = ch.target
			}
			isJoin := func(i ssa.Instruction) bool { c, ok := i.(ssa.CallInstruction); return ok && isWGWait(c) }
			joinWhat, joinJudged := "Wait", false
			if wait == nil {
				// the channel form: one report per worker, collected in a loop with no other way out
				if rv, mks := p.workerResultRecvs(scanFn); len(rv) == 1 {
					cj := p.analyseChanJoin(scanFn, rv[0], mks[0])
					jc := funcName(scanFn) + ": returns only after all partition workers have finished"
					switch {
					case cj.bad != "":
						res.bad("C13-R3", jc, p.pos(cj.badAt.Pos()), cj.bad+" (the scan returns, and a stream is terminated and closed, while partition workers are still producing)")
					case cj.und != "" || cj.joinAt == nil:
						res.und("C13-R3", jc, p.pos(rv[0].Pos()), "channel join: "+cj.und)
					default:
						res.ok("C13-R3", jc, p.pos(rv[0].Pos()), "channel join: every worker reports exactly once as its last action, the collecting loop runs as often as the start loop and has no other exit")
						wait = cj.joinAt
						isJoin = func(i ssa.Instruction) bool { return i == cj.joinAt }
						joinWhat = "the collecting loop"
					}
					joinJudged = true
				}
			}
			for _, ch := range scanRg.chainsIn(p, isMerge) {
				merge = ch.target
			}
			construct := funcName(scanFn) + ": merge in partition order after all workers finished"
			var early ssa.Instruction
			if wait != nil && merge != nil {
				early, _, _ = scanRg.search(&frame{fn: scanFn}, scanFn.Blocks[0], 0, superOpts{
					stop: func(i ssa.Instruction, _ *frame) bool { return isJoin(i) },
					bad:  func(i ssa.Instruction, _ *frame) bool { return isMerge(i) },
				})
			}
			switch {
			case wait == nil && joinJudged:
				// reported above
			case wait == nil || merge == nil:
				res.bad("C13-R3", construct, p.pos(scanFn.Pos()), "WaitGroup.Wait or the merge of the forked receivers is missing")
			case early != nil:
				res.bad("C13-R3", construct, p.pos(early.Pos()), "forked receivers are merged before all partition workers have finished")
			default:
				// merged receiver comes from a range-by-index over the receiver list (ascending)
				arg := merge.(ssa.CallInstruction).Common().Args[0]
				okOrder := false
				if ld, ok := resolve(arg).(*ssa.UnOp); ok {
					if ia, ok := ld.X.(*ssa.IndexAddr); ok {
						if bo, ok := ia.Index.(*ssa.BinOp); ok && bo.Op == token.ADD {
							if k, ok := constInt(bo.Y); ok && k == 1 {
								okOrder = true // rangeindex loop: idx = phi + 1
							}
						}
						if _, isPhi := ia.Index.(*ssa.Phi); isPhi {
							okOrder = true
						}
					}
				}
				// .. and element k of that list is partition k's receiver: a list that is a captured variable of the
				// driver is filled by the workers at their own index, never reassigned (appended to) by them
				if okOrder {
					if ld, ok := resolve(arg).(*ssa.UnOp); ok {
						if ia, ok := ld.X.(*ssa.IndexAddr); ok {
							if cl, ok := ia.X.(*ssa.UnOp); ok && cl.Op == token.MUL {
								if cell, ok := cl.X.(*ssa.Alloc); ok {
									for wi, worker := range workers {
										filled, reassigned := 0, ssa.Instruction(nil)
										isCell := func(v ssa.Value) bool {
											fv, ok := v.(*ssa.FreeVar)
											if !ok {
												return false
											}
											for _, b := range p.freeVarBindings(fv) {
												if b == ssa.Value(cell) {
													return true
												}
											}
											return false
										}
										for _, b := range worker.Blocks {
											for _, ins := range b.Instrs {
												st, ok := ins.(*ssa.Store)
												if !ok {
													continue
												}
												if isCell(st.Addr) {
													reassigned = st
												}
												if sia, ok := st.Addr.(*ssa.IndexAddr); ok {
													if l2, ok := sia.X.(*ssa.UnOp); ok && l2.Op == token.MUL && isCell(l2.X) {
														if prm, _ := ownIndexOf(sia.Index, worker); prm != nil {
															filled++
														}
													}
												}
											}
										}
										c2 := fmt.Sprintf("%s: worker #%d puts its receiver at its partition index of the merged list", funcName(scanFn), wi+1)
										switch {
										case reassigned != nil:
											okOrder = false
											res.bad("C13-R3", c2, p.pos(reassigned.Pos()), "a worker goroutine appends to (reassigns) the list the driver merges: the list is in completion order, so an unlimited range read over several partitions returns keys out of ascending order")
										case filled == 0:
											okOrder = false
											res.bad("C13-R3", c2, p.pos(worker.Pos()), "the worker does not store its receiver at its own index of the list the driver merges")
										default:
											res.ok("C13-R3", c2, p.pos(worker.Pos()), fmt.Sprintf("%d store(s) at the own index, no reassignment", filled))
										}
									}
								}
							}
						}
					}
					if !okOrder {
						break
					}
				}
				if okOrder {
					res.ok("C13-R3", construct, p.pos(merge.Pos()), joinWhat+" precedes the merge loop on every path, which ranges over the receiver list by ascending index")
				} else {
					res.bad("C13-R3", construct, p.pos(merge.Pos()), "forked receivers are not merged in partition-index order")
				}
			}
		}
	}

	// ---- R4 ----
	hdr := p.namedType("github.com/kubewharf/kubebrain-client/api/v2rpc", "ResponseHeader")
	var hdrRev *types.Var
	hs := hdr.Underlying().(*types.Struct)
	for i := 0; i < hs.NumFields(); i++ {
		if hs.Field(i).Name() == "Revision" {
			hdrRev = hs.Field(i)
		}
	}
	nh := 0
	for _, s := range p.fields().stores[hdrRev] {
		f := s.Parent()
		if f.Pkg != sp {
			continue
		}
		nh++
		construct := fmt.Sprintf("%s: header revision of streamed response #%d", funcName(f), nh)
		v := resolve(s.Val)
		// the stream's revision: the revision parameter of Scanner.RangeStream, handed down through constructors and
		// producers, or the receiver's read-revision field (which is fed from it, checked below) - not just any
		// parameter (append's third parameter is the revision of the key being appended)
		p.buildCallers()
		var streamRev func(v ssa.Value, d int) bool
		streamRev = func(v ssa.Value, d int) bool {
			v = p.resolveDeep(v)
			if d > 5 {
				return false
			}
			switch x := v.(type) {
			case *ssa.UnOp:
				if fa, ok := x.X.(*ssa.FieldAddr); ok && x.Op == token.MUL {
					fn := x.Parent()
					for fn.Parent() != nil {
						fn = fn.Parent()
					}
					return len(fn.Params) > 0 && p.resolveDeep(fa.X) == ssa.Value(fn.Params[0]) && isUint64(x.Type())
				}
			case *ssa.Parameter:
				fn := x.Parent()
				for _, impl := range p.implsOf(rangeStreamM) {
					if fn == impl {
						return isUint64(x.Type())
					}
				}
				idx := sigParamIndex(x)
				cs := p.callers[fn]
				if len(cs) == 0 || idx < 0 {
					return false
				}
				for _, c := range cs {
					a := argForSigParam(c, idx)
					if a == nil || !streamRev(a, d+1) {
						return false
					}
				}
				return true
			}
			return false
		}
		good := streamRev(v, 0)
		// the read-revision field itself is set only when a receiver is constructed (parameter) or forked (copied
		// from the parent's field)
		if ld, ok := v.(*ssa.UnOp); ok && good {
			if fa, ok := ld.X.(*ssa.FieldAddr); ok {
				for _, st := range p.fields().stores[fieldOf(fa)] {
					sv := resolve(st.Val)
					okSrc := false
					if _, isParam := sv.(*ssa.Parameter); isParam {
						okSrc = true
					}
					if l2, ok := sv.(*ssa.UnOp); ok {
						if fa2, ok := l2.X.(*ssa.FieldAddr); ok && fieldOf(fa2) == fieldOf(fa) {
							okSrc = true
						}
					}
					if !okSrc || !isFreshObject(st.Addr.(*ssa.FieldAddr).X) {
						good = false
						res.bad("C13-R4", fmt.Sprintf("%s: read revision of the stream receiver is set only at construction / fork", funcName(st.Parent())), p.pos(st.Pos()), "the receiver's read revision is overwritten after construction: streamed batches name a revision other than the one they were read at")
					}
				}
			}
		}
		if good {
			res.ok("C13-R4", construct, p.pos(s.Pos()), "the receiver's read revision / the stream's revision parameter")
		} else {
			res.bad("C13-R4", construct, p.pos(s.Pos()), "a streamed response does not name the revision it was read at")
		}
	}

	// ---- R5 ----
	checkBorderContiguity(p, r, res, sp)
	// ---- R9 ----
	checkAdvertisedBorders(p, r, res, "C13-R9")
	checkSortLessIndexesSorted(p, res, "C13-R11")
	// ---- R10: a streamed batch is not refilled after it was sent (C05-R9) ----
	{
		sub5 := newResult("C05")
		checkHandOffAliasing(p, sub5, "C05-R9", "pkg/backend", "pkg/backend/scanner")
		for _, o := range sub5.Obls {
			res.add("C13-R10", o.Rule+" "+o.Construct, o.Status, o.Pos, o.Detail)
		}
	}

	// ---- R6 ----
	// (a) the function creating the engine iterator resets the receiver before any append
	for _, f := range p.AllFuncs {
		if f.Pkg != sp {
			continue
		}
		var iterCall ssa.Instruction
		for _, c := range callsIn(f) {
			if r.is(c, r.KVIter) && c.Common().IsInvoke() {
				iterCall = c.(ssa.Instruction)
			}
		}
		if iterCall == nil {
			continue
		}
		var reset ssa.Instruction
		var appends []ssa.Instruction
		for _, c := range callsIn(f) {
			if c.Common().IsInvoke() && c.Common().Method == resetM {
				reset = c.(ssa.Instruction)
			}
			if c.Common().IsInvoke() && c.Common().Method == appendM {
				appends = append(appends, c.(ssa.Instruction))
			}
		}
		construct := funcName(f) + ": receiver reset at the start of each scan attempt"
		if len(appends) == 0 {
			continue
		}
		if reset == nil {
			res.bad("C13-R6", construct, p.pos(iterCall.Pos()), "a scan attempt appends to the receiver without resetting it first: after a failed attempt is retried, the keys of the aborted attempt are returned again (duplicated, unsorted results)")
			continue
		}
		okAll := true
		for _, a := range appends {
			if !instrDominates(reset, a) {
				okAll = false
			}
		}
		if okAll {
			res.ok("C13-R6", construct, p.pos(reset.Pos()), fmt.Sprintf("reset dominates all %d append sites in the attempt function", len(appends)))
		} else {
			res.bad("C13-R6", construct, p.pos(reset.Pos()), "the reset does not precede every append of the attempt")
		}
	}
	// (b) accumulating receivers have their own reset re-initialising the accumulated fields
	for _, n := range impls {
		app := ownMethod(n, appendM)
		if app == nil {
			continue
		}
		acc := map[*types.Var]bool{}
		for _, b := range app.Blocks {
			for _, ins := range b.Instrs {
				if st, ok := ins.(*ssa.Store); ok {
					if fa, ok := st.Addr.(*ssa.FieldAddr); ok && resolve(fa.X) == ssa.Value(app.Params[0]) {
						acc[fieldOf(fa)] = true
					}
				}
			}
		}
		if len(acc) == 0 {
			continue
		}
		reset := ownMethod(n, resetM)
		for fv := range acc {
			construct := fmt.Sprintf("%s.reset re-initialises %s", n.Obj().Name(), fv.Name())
			if reset == nil {
				res.bad("C13-R6", construct, p.pos(app.Pos()), "the receiver accumulates results in append but has no reset of its own (the embedded no-op is used): a retried scan attempt keeps the keys of the failed one")
				continue
			}
			found := false
			for _, s := range p.fields().stores[fv] {
				if s.Parent() == reset {
					found = true
				}
			}
			// ... and on every path through reset
			if found {
				fld := fv
				ins, _ := searchFrom(reset.Blocks[0], 0, searchOpts{
					stop: func(i ssa.Instruction) bool {
						st, ok := i.(*ssa.Store)
						if !ok {
							return false
						}
						fa, ok := st.Addr.(*ssa.FieldAddr)
						return ok && fieldOf(fa) == fld
					},
					bad: func(i ssa.Instruction) bool { _, ok := i.(*ssa.Return); return ok },
				})
				if ins != nil {
					res.bad("C13-R6", construct, p.pos(ins.Pos()), "reset re-initialises the accumulated field only on some paths (e.g. only for limited receivers): on the others a retried scan attempt keeps the keys of the failed one")
					continue
				}
			}
			if found {
				res.ok("C13-R6", construct, p.pos(reset.Pos()), "own reset stores a fresh value")
			} else {
				res.bad("C13-R6", construct, p.pos(reset.Pos()), "reset does not re-initialise the field that append accumulates into")
			}
		}
	}

	// ---- R7 ----
	checkPartitionClamp(p, r, res, "C13-R7")
	// ---- R8: no error is lost on the scan path ----
	{
		delM := map[*types.Func]bool{r.KVDel: true, r.KVDelCurrent: true, r.BWDel: true, r.BWDelCurrent: true}
		// delete helpers of the compaction worker (they issue an engine delete, or only call such helpers and never
		// advance an iterator): their results are the business of C07-R4, not of reads
		deleting := map[*ssa.Function]bool{}
		for iter := 0; iter < 5; iter++ {
			for _, f := range p.AllFuncs {
				if f.Pkg != sp || deleting[f] {
					continue
				}
				direct, viaHelper, scans := false, false, false
				var calls []ssa.CallInstruction
				for _, g := range withAnon(f) {
					calls = append(calls, callsIn(g)...)
				}
				for _, c := range calls {
					if c.Common().IsInvoke() && delM[c.Common().Method] {
						direct = true
					}
					if c.Common().IsInvoke() && (c.Common().Method == r.ItNext || c.Common().Method == r.KVIter) {
						scans = true
					}
					if sc := c.Common().StaticCallee(); sc != nil && deleting[sc] {
						viaHelper = true
					}
				}
				if direct || (viaHelper && !scans) {
					deleting[f] = true
				}
			}
		}
		inScope := func(f *ssa.Function) bool {
			top := f
			for top.Parent() != nil {
				top = top.Parent()
			}
			return top.Pkg == sp && !deleting[top]
		}
		fallible := func(c ssa.CallInstruction) (string, bool) {
			if c.Common().IsInvoke() {
				switch c.Common().Method {
				case r.KVIter, r.ItNext, r.KVGetPartitions, r.KVGetTSO, r.KVGet:
					return "storage." + c.Common().Method.Name(), true
				}
				return "", false
			}
			sc := c.Common().StaticCallee()
			if sc == nil {
				return "", false
			}
			if sc.Pkg == sp && sc.Blocks != nil && !deleting[sc] {
				return funcName(sc), true
			}
			if sc.Pkg != nil && strings.HasSuffix(sc.Pkg.Pkg.Path(), "util/wait") && strings.Contains(sc.Name(), "Backoff") {
				return "wait." + sc.Name(), true
			}
			return "", false
		}
		checkErrorPreservation(p, res, "C13-R8", inScope, fallible, "a partition whose scan failed would be reported as complete: the read succeeds with keys missing")
		checkFirstWinsErrors(p, res, "C13-R8", inScope)
		checkScanCancellationIsAnError(p, res, "C13-R8")
		// the same below the scanner: an adapter's iterator hands the engine's error on instead of ending the data (C11-R11)
		sub11 := p.subResult("C11", tier)
		for _, o := range sub11.Obls {
			if o.Rule == "C11-R11" && (strings.Contains(strings.ToLower(o.Construct), "iter") || strings.Contains(o.Construct, "Next")) {
				res.add("C13-R8", o.Rule+" "+o.Construct, o.Status, o.Pos, o.Detail)
			}
		}
	}

}

func errorParamIndex(f *ssa.Function) int {
	for i, prm := range f.Params {
		if types.Identical(prm.Type(), types.Universe.Lookup("error").Type()) {
			return i
		}
	}
	return -1
}

// checkBorderContiguity: in functions of the scanner package that rewrite Partition borders in a loop.
func checkBorderContiguity(p *Prog, r *Roles, res *Result, sp *ssa.Package) {
	startF := p.structField("pkg/storage", "Partition", "Start")
	endF := p.structField("pkg/storage", "Partition", "End")
	checkRegionListingUnbounded(p, r, res)
	checkWorkersOnAdjustedPartitions(p, r, res, sp)
	for _, f := range p.AllFuncs {
		if f.Pkg != sp || f.Synthetic != "" {
			continue
		}
		// a border store goes into an element of a partition slice: in place (ps[i].End = ..), or into a local copy
		// of the element that is appended to the output slice afterwards (for i, p := range ps { p.End = ..;
		// ret = append(ret, p) }); elemOf names the slice and the index of the element either way
		elemOf := func(base ssa.Value) (string, ssa.Value, bool) {
			switch x := base.(type) {
			case *ssa.IndexAddr:
				return pureKeyCell(x.X), x.Index, true
			case *ssa.Alloc:
				slice, idx := "", ssa.Value(nil)
				for _, ref := range *x.Referrers() {
					switch y := ref.(type) {
					case *ssa.Store:
						// the copy is filled from in[i]
						if y.Addr == ssa.Value(x) {
							if ld, ok := resolve(y.Val).(*ssa.UnOp); ok && ld.Op == token.MUL {
								if ia, ok := ld.X.(*ssa.IndexAddr); ok {
									idx = ia.Index
								}
							}
						}
					case *ssa.UnOp:
						// .. and appended to out: append(out, []T{*x}...)
						for _, r2 := range *y.Referrers() {
							st, ok := r2.(*ssa.Store)
							if !ok || st.Val != ssa.Value(y) {
								continue
							}
							ia, ok := st.Addr.(*ssa.IndexAddr)
							if !ok {
								continue
							}
							arr, ok := ia.X.(*ssa.Alloc)
							if !ok {
								continue
							}
							for _, r3 := range *arr.Referrers() {
								sl, ok := r3.(*ssa.Slice)
								if !ok {
									continue
								}
								for _, r4 := range *sl.Referrers() {
									if c, ok := r4.(*ssa.Call); ok {
										if bi, ok := c.Common().Value.(*ssa.Builtin); ok && bi.Name() == "append" && len(c.Common().Args) == 2 && c.Common().Args[1] == ssa.Value(sl) {
											slice = pureKeyCell(c.Common().Args[0])
										}
									}
								}
							}
						}
					}
				}
				if slice != "" && idx != nil {
					return slice, idx, true
				}
			}
			return "", nil, false
		}
		var startStores, endStores []*ssa.Store
		for _, s := range p.fields().stores[startF] {
			if s.Parent() == f {
				if _, _, ok := elemOf(s.Addr.(*ssa.FieldAddr).X); ok {
					startStores = append(startStores, s)
				}
			}
		}
		for _, s := range p.fields().stores[endF] {
			if s.Parent() == f {
				if _, _, ok := elemOf(s.Addr.(*ssa.FieldAddr).X); ok {
					endStores = append(endStores, s)
				}
			}
		}
		if len(startStores) == 0 {
			continue
		}
		if len(endStores) == 0 {
			// the function propagates borders between neighbours but never writes an end border of the slice
			nEnd := 0
			for _, s := range p.fields().stores[endF] {
				if s.Parent() == f {
					nEnd++
				}
			}
			res.bad("C13-R5", funcName(f)+": realigned end borders are written into the partition slice", p.pos(startStores[0].Pos()),
				fmt.Sprintf("start borders are copied from the neighbour's end border, but no end border of the slice is ever rewritten (%d store(s) go to a copy of the element): a border inside one key's versions stays where the engine put it", nEnd))
			continue
		}
		for i, ss := range startStores {
			construct := fmt.Sprintf("%s: start border #%d is the adjusted end border of the predecessor", funcName(f), i+1)
			dstSlice, dstIdx, _ := elemOf(ss.Addr.(*ssa.FieldAddr).X)
			ld, ok := resolve(ss.Val).(*ssa.UnOp)
			srcSlice, srcIdx, srcOK := "", ssa.Value(nil), false
			if ok {
				if fa, ok := ld.X.(*ssa.FieldAddr); ok && fieldOf(fa) == endF {
					srcSlice, srcIdx, srcOK = elemOf(fa.X)
				}
			}
			if !srcOK {
				res.bad("C13-R5", construct, p.pos(ss.Pos()), "a partition's start border is not copied from a partition's end border: the partitions are no longer contiguous (records between the borders are scanned by no worker, or twice)")
				continue
			}
			problems := []string{}
			// same slice as the one receiving adjusted ends
			for _, es := range endStores {
				eSlice, eIdx, _ := elemOf(es.Addr.(*ssa.FieldAddr).X)
				if eSlice != srcSlice {
					problems = append(problems, "the propagated end border is read from a different slice than the one whose end borders are adjusted (stale, unadjusted border)")
				}
				// the end border that was propagated must not be adjusted afterwards in the same iteration
				if reaches(ld, es) && !reaches(es, ld) {
					// the adjustment runs in a later pass over the slice: every propagated start is the unadjusted border
					problems = append(problems, "end borders are adjusted in a pass that runs after they have been copied into the next partition's start: the next partition starts at the unadjusted border and the records in between are scanned by nobody")
				}
				if pureKey(eIdx) == pureKey(srcIdx) && reaches(ld, es) && !crossesBackEdgeOnly(ld, es) {
					problems = append(problems, "an end border is adjusted after it has been copied into the next partition's start: the next partition starts at the unadjusted border and the records in between are scanned by nobody")
				}
			}
			if dstSlice != srcSlice {
				problems = append(problems, "start is written into a different slice than the end is read from")
			}
			// predecessor relation: src index = dst index - 1, or dst index = src index + 1
			pred := false
			if bo, ok := srcIdx.(*ssa.BinOp); ok && bo.Op == token.SUB && pureKey(bo.X) == pureKey(dstIdx) {
				if k, ok := constInt(bo.Y); ok && k == 1 {
					pred = true
				}
			}
			if bo, ok := dstIdx.(*ssa.BinOp); ok && bo.Op == token.ADD && pureKey(bo.X) == pureKey(srcIdx) {
				if k, ok := constInt(bo.Y); ok && k == 1 {
					pred = true
				}
			}
			if !pred {
				problems = append(problems, "the end border is not taken from the immediate predecessor partition")
			}
			if len(problems) == 0 {
				res.ok("C13-R5", construct, p.pos(ss.Pos()), "start(i) = end(i-1) within the adjusted slice; the end is final when it is propagated")
			} else {
				res.bad("C13-R5", construct, p.pos(ss.Pos()), strings.Join(uniq(problems), "; "))
			}
		}
		// adjusted end must be an index key of the decoded user key (never a mid-version key)
		for i, es := range endStores {
			construct := fmt.Sprintf("%s: adjusted end border #%d is an index key", funcName(f), i+1)
			// the realignment of one border may sit in a helper of the package: h(border) returns the border itself where
			// it does not decode to a version key and the index key of the decoded user key otherwise
			if hc, ok := p.resolveDeep(es.Val).(*ssa.Call); ok && !r.is(hc, r.EncRev) && !r.is(hc, r.EncObj) {
				if h := hc.Common().StaticCallee(); h != nil && h.Blocks != nil && h.Pkg == f.Pkg && !hc.Common().IsInvoke() {
					why, good := judgeAlignHelper(p, r, h)
					if good {
						res.ok("C13-R5", construct, p.pos(es.Pos()), why)
						c2 := fmt.Sprintf("%s: every mid-version end border #%d is realigned", funcName(f), i+1)
						res.ok("C13-R5", c2, p.pos(es.Pos()), "by "+funcName(h)+": the border is returned unchanged only where it did not decode to a version key")
						c3 := fmt.Sprintf("%s: the end border #%d of every partition but the last is decoded", funcName(f), i+1)
						if at, path := skipsInLoop(hc); at != nil {
							res.bad("C13-R5", c3, p.pos(hc.Pos()), "an iteration can go on to the next partition without decoding the end border of this one, although it is not the last: "+blockPath(p, path))
						} else {
							res.ok("C13-R5", c3, p.pos(hc.Pos()), "only the last partition skips the decoder")
						}
					} else {
						res.bad("C13-R5", construct, p.pos(es.Pos()), why)
					}
					continue
				}
			}
			kp := p.keyProvenance(es.Val)
			if kp.Kind == keyIndex {
				res.ok("C13-R5", construct, p.pos(es.Pos()), "EncodeRevisionKey / EncodeObjectKey(.., 0) of the decoded user key")
			} else {
				res.bad("C13-R5", construct, p.pos(es.Pos()), "an end border is rewritten to something other than the index key of the user key it splits")
				continue
			}
			// every border that decodes to a version key (revision != 0) is realigned: from the edge revision != 0
			// each path reaches the store before the next iteration / return
			dc, idx, ok := extractOf(kp.RawKey)
			if !ok || idx != 0 || !r.is(dc, r.Decode) {
				continue
			}
			revEx := extractsOf(dc)[1]
			// .. and every border but the last one is looked at: no iteration goes on to the next partition without
			// having decoded its end, except where the index was found to be the last one (a second, home-made test of
			// "is this a version key" in front of the decoder lets borders through that the decoder would have recognised)
			{
				c3 := fmt.Sprintf("%s: the end border #%d of every partition but the last is decoded", funcName(f), i+1)
				if loopOf(dc.Block()) != nil {
					if skipAt, skipPath := skipsInLoop(dc); skipAt != nil {
						res.bad("C13-R5", c3, p.pos(dc.Pos()), "an iteration can go on to the next partition without decoding the end border of this one, although it is not the last: a border inside one key's versions that the extra test does not recognise stays where the engine put it, and that key is split between two workers (returned twice, counted twice): "+blockPath(p, skipPath))
					} else {
						res.ok("C13-R5", c3, p.pos(dc.Pos()), "only the last partition skips the decoder")
					}
				}
			}
			c2 := fmt.Sprintf("%s: every mid-version end border #%d is realigned", funcName(f), i+1)
			found := false
			for _, b := range f.Blocks {
				if ifOf(b) == nil {
					continue
				}
				for s := 0; s < 2; s++ {
					cf := edgeFact(edge{b, s})
					if cf.X == nil || resolve(cf.X) != revEx || !isZeroConst(cf.Y) || !((cf.Op == token.NEQ && cf.Want) || (cf.Op == token.EQL && !cf.Want)) {
						continue
					}
					found = true
					ins, path := searchFrom(b.Succs[s], 0, searchOpts{
						stop: func(i ssa.Instruction) bool { return i == ssa.Instruction(es) },
						bad: func(i ssa.Instruction) bool {
							if _, isRet := i.(*ssa.Return); isRet {
								return true
							}
							// next iteration: the Decode call again
							return i == ssa.Instruction(dc)
						},
					})
					if ins != nil {
						res.bad("C13-R5", c2, p.pos(ins.Pos()), "an end border that lies inside one key's versions can be left where it is: that key is then split between two workers and returned twice (once with a stale version): "+blockPath(p, path))
					} else {
						res.ok("C13-R5", c2, p.pos(es.Pos()), "from 'decoded revision != 0' every path rewrites the border before the next partition")
					}
				}
			}
			if !found {
				res.bad("C13-R5", c2, p.pos(es.Pos()), "the realignment is not driven by the decoded revision of the border")
			}
		}
	}
}

// pureKeyCell: like pureKey but a load of a local cell is named by the cell (the slice variable), so that
// re-loads of the same variable agree.
func pureKeyCell(v ssa.Value) string {
	v = strip(v)
	if ld, ok := v.(*ssa.UnOp); ok && ld.Op == token.MUL {
		if al, ok := ld.X.(*ssa.Alloc); ok {
			return fmt.Sprintf("cell:%p", al)
		}
	}
	return pureKey(v)
}

// crossesBackEdgeOnly: b is reachable from a only through a loop back edge (i.e. in a later iteration).
func crossesBackEdgeOnly(a, b ssa.Instruction) bool {
	// remove back edges: an edge x->y is a back edge if y dominates x
	pa := posOf(a)
	seen := map[*ssa.BasicBlock]bool{}
	found := false
	var walk func(x *ssa.BasicBlock, start int)
	walk = func(x *ssa.BasicBlock, start int) {
		for i := start; i < len(x.Instrs); i++ {
			if x.Instrs[i] == b {
				found = true
				return
			}
		}
		for _, s := range x.Succs {
			if s.Dominates(x) {
				continue // back edge
			}
			if !seen[s] {
				seen[s] = true
				walk(s, 0)
			}
		}
	}
	walk(pa.b, pa.i+1)
	return !found
}

// parallelScanDriver: the function of the scanner package whose region (itself plus the package's helpers it calls
// synchronously) contains both a go statement and a WaitGroup.Wait, and none of whose helpers has both already.
func parallelScanDriver(p *Prog, sp *ssa.Package, isWGWait func(ssa.CallInstruction) bool) (*ssa.Function, *fnRegion) {
	descend := func(g *ssa.Function) bool { return g.Pkg == sp && g.Synthetic == "" }
	type has struct{ goStmt, wait bool }
	memo := map[*ssa.Function]has{}
	var scan func(f *ssa.Function, d int) has
	scan = func(f *ssa.Function, d int) has {
		if h, ok := memo[f]; ok {
			return h
		}
		memo[f] = has{}
		var h has
		for _, c := range callsIn(f) {
			switch c.(type) {
			case *ssa.Go:
				h.goStmt = true
				continue
			case *ssa.Defer:
				continue
			}
			if isWGWait(c) {
				h.wait = true
			}
			if !h.wait && h.goStmt {
				if rv, _ := p.workerResultRecvs(f); len(rv) > 0 {
					h.wait = true // channel form of the join
				}
			}
			if sc := c.Common().StaticCallee(); sc != nil && sc.Blocks != nil && descend(sc) && d < 3 {
				hh := scan(sc, d+1)
				h.goStmt = h.goStmt || hh.goStmt
				h.wait = h.wait || hh.wait
			}
		}
		memo[f] = h
		return h
	}
	var cands []*ssa.Function
	for _, f := range p.AllFuncs {
		if f.Pkg != sp || f.Synthetic != "" || f.Parent() != nil {
			continue
		}
		memo = map[*ssa.Function]has{}
		if h := scan(f, 0); h.goStmt && h.wait {
			cands = append(cands, f)
		}
	}
	isCand := map[*ssa.Function]bool{}
	for _, f := range cands {
		isCand[f] = true
	}
	var driver *ssa.Function
	for _, f := range cands {
		minimal := true
		for _, c := range callsIn(f) {
			if sc := c.Common().StaticCallee(); sc != nil && sc != f && isCand[sc] {
				minimal = false
			}
		}
		if minimal {
			driver = f
		}
	}
	if driver == nil {
		return nil, nil
	}
	return driver, &fnRegion{root: driver, descend: descend}
}

// sharedWithSiblings: a slice value that the goroutine did not make itself - loaded from a captured variable, from a
// field of an object it was handed, or handed to it directly.
func sharedWithSiblings(v ssa.Value) bool {
	switch x := resolve(v).(type) {
	case *ssa.Parameter, *ssa.FreeVar:
		return true
	case *ssa.UnOp:
		if x.Op != token.MUL {
			return false
		}
		switch a := x.X.(type) {
		case *ssa.FreeVar:
			return true
		case *ssa.FieldAddr:
			switch resolve(a.X).(type) {
			case *ssa.Parameter, *ssa.FreeVar:
				return true
			case *ssa.UnOp:
				return sharedWithSiblings(a.X)
			}
		}
	}
	return false
}

// goActual: the argument a go statement passes for parameter prm of the function it starts.
func goActual(g *ssa.Go, prm *ssa.Parameter) ssa.Value {
	idx := paramIndex(prm)
	args := g.Common().Args
	if _, isClosure := g.Common().Value.(*ssa.MakeClosure); isClosure || g.Common().StaticCallee() != nil {
		if idx >= 0 && idx < len(args) {
			return args[idx]
		}
	}
	return nil
}

// structLiteralField: v is (a load of) a struct literal; the value stored into its field fld, or nil.
func structLiteralField(v ssa.Value, fld *types.Var) ssa.Value {
	ld, ok := resolve(v).(*ssa.UnOp)
	if !ok || ld.Op != token.MUL {
		return nil
	}
	al, ok := ld.X.(*ssa.Alloc)
	if !ok {
		return nil
	}
	for _, ref := range *al.Referrers() {
		if fa, ok := ref.(*ssa.FieldAddr); ok && fieldOf(fa) == fld {
			for _, r2 := range *fa.Referrers() {
				if st, ok := r2.(*ssa.Store); ok && st.Addr == ssa.Value(fa) {
					return st.Val
				}
			}
		}
	}
	return nil
}

// checkRegionListingUnbounded: an adapter's GetPartitions that asks the placement driver for the regions of the
// interval asks for all of them: the limit operand of ScanRegions is a constant <= 0 (the client's "no limit"), or the
// call sits in a loop (paging). A positive limit in a single call truncates the partition list: the interval behind
// the last listed region is scanned by no worker, and range, count and stream silently return a prefix.
func checkRegionListingUnbounded(p *Prog, r *Roles, res *Result) {
	for _, impl := range p.implsOf(r.KVGetPartitions) {
		rg := &fnRegion{root: impl, descend: func(g *ssa.Function) bool { return g.Pkg == impl.Pkg && g.Synthetic == "" }}
		n := 0
		for _, ch := range rg.chainsIn(p, func(ins ssa.Instruction) bool {
			c, ok := ins.(ssa.CallInstruction)
			if !ok || !c.Common().IsInvoke() {
				return false
			}
			m := c.Common().Method
			return m.Name() == "ScanRegions" && m.Pkg() != nil && strings.HasSuffix(m.Pkg().Path(), "pd/client")
		}) {
			c := ch.target.(ssa.CallInstruction)
			n++
			construct := fmt.Sprintf("%s: region listing #%d is not truncated", funcName(impl), n)
			args := c.Common().Args
			lim := ch.up(args[len(args)-1], len(ch.fns)-1)
			k, isConst := constInt(resolve(lim))
			switch {
			case isConst && k <= 0:
				res.ok("C13-R5", construct, p.pos(c.Pos()), fmt.Sprintf("limit operand is the constant %d: all regions of the interval", k))
			case loopOf(c.Block()) != nil:
				res.ok("C13-R5", construct, p.pos(c.Pos()), "the listing call is repeated in a loop (paging)")
			default:
				res.bad("C13-R5", construct, p.pos(c.Pos()), "the regions of the interval are listed by a single call with a positive (or non-constant) limit: an interval that spans more regions gets a truncated partition list, the tail is scanned by no worker, and range, count and stream reads succeed with a prefix of the keys")
			}
		}
	}
}

// checkWorkersOnAdjustedPartitions: what the workers of a scan are started on is the realigned partition list, on every
// path of the driver (range reads and compactions alike).
func checkWorkersOnAdjustedPartitions(p *Prog, r *Roles, res *Result, sp *ssa.Package) {
	scanFn, _ := parallelScanDriver(p, sp, func(c ssa.CallInstruction) bool {
		sc := c.Common().StaticCallee()
		return sc != nil && sc.Name() == "Wait" && sc.Signature.Recv() != nil && isNamed(sc.Signature.Recv().Type(), "sync", "WaitGroup")
	})
	if scanFn == nil {
		return
	}

	var raw ssa.Value
	var adjust []*ssa.Call
	for _, c := range callsIn(scanFn) {
		if call, ok := c.(*ssa.Call); ok && r.is(call, r.KVGetPartitions) {
			if ex := extractsOf(call); len(ex) > 0 {
				raw = ex[0]
			}
		}
	}
	if raw != nil {
		// the realigning function: a function of the package that takes the list and returns a list
		isAdjustCall := func(call *ssa.Call, v ssa.Value) bool {
			sc := call.Common().StaticCallee()
			if sc == nil || sc.Pkg != sp || sc.Signature.Results().Len() != 1 || !types.Identical(sc.Signature.Results().At(0).Type(), raw.Type()) {
				return false
			}
			for _, a := range call.Common().Args {
				if a == v {
					return true
				}
			}
			return false
		}
		isAdjustArg := func(v ssa.Value) bool {
			if v.Referrers() == nil {
				return false
			}
			for _, ref := range *v.Referrers() {
				if call, ok := ref.(*ssa.Call); ok && isAdjustCall(call, v) {
					adjust = append(adjust, call)
					return true
				}
			}
			return false
		}
		construct := funcName(scanFn) + ": workers are started on the realigned partitions on every path"
		var leak ssa.Instruction
		checkUse := func(at ssa.Instruction, v ssa.Value) {
			for _, alt := range resolveAll(v) {
				if alt == raw {
					leak = at
				}
			}
		}
		// direct uses of the engine's list (a local that is not captured): the realigning call, the error test, and
		// nothing else
		var direct func(v ssa.Value, d int)
		direct = func(v ssa.Value, d int) {
			if d > 3 || v.Referrers() == nil {
				return
			}
			for _, ref := range *v.Referrers() {
				switch x := ref.(type) {
				case *ssa.Call:
					if isAdjustCall(x, v) {
						adjust = append(adjust, x)
						continue
					}
					if bi, ok := x.Common().Value.(*ssa.Builtin); ok && bi.Name() == "len" {
						continue // logging / sizing before the realignment is harmless
					}
					leak = x
				case *ssa.Phi:
					direct(x, d+1)
				case *ssa.Range, *ssa.IndexAddr, *ssa.MakeClosure, *ssa.Go, *ssa.Slice:
					leak = ref
				}
			}
		}
		direct(raw, 0)
		for _, b := range scanFn.Blocks {
			for _, ins := range b.Instrs {
				switch x := ins.(type) {
				case *ssa.UnOp:
					if x.Op == token.MUL {
						if _, ok := x.X.(*ssa.Alloc); ok && types.Identical(x.Type(), raw.Type()) && !isAdjustArg(x) {
							checkUse(x, x)
						}
					}
				case *ssa.MakeClosure:
					for _, bnd := range x.Bindings {
						if cell, ok := bnd.(*ssa.Alloc); ok {
							if pt, ok := cell.Type().Underlying().(*types.Pointer); ok && types.Identical(pt.Elem(), raw.Type()) {
								if sts, _, ok := reachingStores(cell, x); ok {
									for _, st := range sts {
										checkUse(x, st.Val)
									}
								}
							}
						}
					}
				}
			}
		}
		switch {
		case len(adjust) == 0:
			res.bad("C13-R5", construct, p.pos(scanFn.Pos()), "the partition list of the engine is never handed to the realigning function")
		case leak != nil:
			res.bad("C13-R5", construct, p.pos(leak.Pos()), "on some path (e.g. for compactions) the workers are started on the engine's raw partition list instead of the realigned one: a border between two records of one key splits that key over two workers - a compaction then deletes the index record in one worker and keeps a version in the other, and the deleted key is readable again")
		default:
			res.ok("C13-R5", construct, p.pos(adjust[0].Pos()), "every use of the partition list after the engine call sees the result of the realigning function only")
		}
	}
}

// checkFirstWinsErrors: an outcome kept with "the first one wins" (sync.Once, or a store guarded by "nothing stored
// yet") must only ever be a failure - otherwise the first worker to finish, which is a successful one whenever a
// failing worker spends its time in retries, takes the place and the failure of the slow one is dropped.
func checkFirstWinsErrors(p *Prog, res *Result, rule string, inScope func(*ssa.Function) bool) {
	errT := types.Universe.Lookup("error").Type()
	for _, f := range p.AllFuncs {
		if f.Blocks == nil || !inScope(f) {
			continue
		}
		n := 0
		for _, c := range callsIn(f) {
			sc := c.Common().StaticCallee()
			if sc == nil || sc.Signature.Recv() == nil || sc.Name() != "Do" || !isNamed(sc.Signature.Recv().Type(), "sync", "Once") || len(c.Common().Args) != 2 {
				continue
			}
			mc, ok := resolve(c.Common().Args[1]).(*ssa.MakeClosure)
			if !ok {
				continue
			}
			lit, ok := mc.Fn.(*ssa.Function)
			if !ok {
				continue
			}
			// error-typed values the literal stores into captured cells: value = load of a captured cell / a binding
			for _, b := range lit.Blocks {
				for _, ins := range b.Instrs {
					st, ok := ins.(*ssa.Store)
					if !ok || !types.Identical(st.Val.Type(), errT) {
						continue
					}
					if _, isFree := st.Addr.(*ssa.FreeVar); !isFree {
						continue
					}
					// the stored value in the frame of f
					var outer ssa.Value
					v := resolve(st.Val)
					if ld, ok := v.(*ssa.UnOp); ok && ld.Op == token.MUL {
						if fv, ok := ld.X.(*ssa.FreeVar); ok {
							for i, q := range lit.FreeVars {
								if q == fv && i < len(mc.Bindings) {
									outer = mc.Bindings[i]
								}
							}
						}
					}
					if fv, ok := v.(*ssa.FreeVar); ok {
						for i, q := range lit.FreeVars {
							if q == fv && i < len(mc.Bindings) {
								outer = mc.Bindings[i]
							}
						}
					}
					n++
					construct := fmt.Sprintf("%s: outcome kept by sync.Once #%d", funcName(f), n)
					if isNilConst(v) {
						continue
					}
					known := false
					for _, cf := range dominatingFacts(c.Block()) {
						if cf.X == nil {
							continue
						}
						x, y := cf.X, cf.Y
						if isNilConst(resolve(x)) {
							x, y = y, x
						}
						if !isNilConst(resolve(y)) || !((cf.Op == token.NEQ && cf.Want) || (cf.Op == token.EQL && !cf.Want)) {
							continue
						}
						// x is the error: the binding's cell content or the value itself
						if outer != nil {
							if al, ok := outer.(*ssa.Alloc); ok {
								if ld, ok := resolve(x).(*ssa.UnOp); ok && ld.Op == token.MUL && ld.X == ssa.Value(al) {
									known = true
								}
								for _, rv := range reachingStoreValues(al) {
									if sameVal(rv, x) {
										known = true
									}
								}
							} else if sameVal(outer, x) {
								known = true
							}
						}
					}
					if known {
						res.ok(rule, construct, p.pos(c.Pos()), "stored only where the error was found non-nil")
					} else {
						res.bad(rule, construct, p.pos(c.Pos()), "the first outcome to arrive is kept whether it is a failure or not: a partition that fails does so after its retries, i.e. last, so the place is taken by the nil of a partition that succeeded and the read answers from the healthy partitions only, without an error")
					}
				}
			}
		}
	}
}

// reachingStoreValues: the values stored into a local cell.
func reachingStoreValues(al *ssa.Alloc) []ssa.Value {
	var out []ssa.Value
	for _, ref := range *al.Referrers() {
		if st, ok := ref.(*ssa.Store); ok && st.Addr == ssa.Value(al) {
			out = append(out, st.Val)
		}
	}
	return out
}

// skipsInLoop: can an iteration of the loop around instruction `look` go on to the next iteration without passing it,
// other than over an edge on which the loop index was found to be the last one (index == len(..)-1)?
func skipsInLoop(look ssa.Instruction) (ssa.Instruction, []*ssa.BasicBlock) {
	lp := loopOf(look.Block())
	if lp == nil {
		return nil, nil
	}
	var header *ssa.BasicBlock
	for hb := range lp {
		for _, pr := range hb.Preds {
			if !lp[pr] {
				header = hb
			}
		}
	}
	if header == nil {
		return nil, nil
	}
	isLastTest := func(cf condFact) bool {
		if cf.X == nil || !((cf.Op == token.EQL && cf.Want) || (cf.Op == token.NEQ && !cf.Want)) {
			return false
		}
		for _, v := range []ssa.Value{cf.X, cf.Y} {
			if bo, ok := resolve(v).(*ssa.BinOp); ok && bo.Op == token.SUB {
				if k, ok := constInt(bo.Y); ok && k == 1 {
					if lc, ok := resolve(bo.X).(*ssa.Call); ok {
						if bi, ok := lc.Common().Value.(*ssa.Builtin); ok && bi.Name() == "len" {
							return true
						}
					}
				}
			}
		}
		return false
	}
	var skipAt ssa.Instruction
	var skipPath []*ssa.BasicBlock
	for _, sb := range header.Succs {
		if !lp[sb] {
			continue
		}
		ins, path := searchFrom(sb, 0, searchOpts{
			stop: func(i ssa.Instruction) bool { return i == look },
			bad: func(i ssa.Instruction) bool {
				if _, isRet := i.(*ssa.Return); isRet {
					return false
				}
				return i.Block() == header
			},
			skipEdge: func(from *ssa.BasicBlock, si int) bool {
				if !lp[from.Succs[si]] {
					return true // leaves the loop
				}
				if ifOf(from) == nil {
					return false
				}
				for _, cf := range expandFact(edgeFact(edge{from, si}), 0) {
					if isLastTest(cf) {
						return true
					}
				}
				return false
			},
		})
		if ins != nil {
			skipAt, skipPath = ins, path
		}
	}
	return skipAt, skipPath
}

// judgeAlignHelper: h(border) decodes its parameter on every path and returns the parameter itself only over an edge
// on which the decoder failed or the decoded revision is 0, and otherwise the index key of the decoded user key.
func judgeAlignHelper(p *Prog, r *Roles, h *ssa.Function) (string, bool) {
	var prm *ssa.Parameter
	for _, q := range h.Params {
		if sl, ok := q.Type().Underlying().(*types.Slice); ok {
			if b, ok := sl.Elem().Underlying().(*types.Basic); ok && b.Kind() == types.Byte {
				prm = q
			}
		}
	}
	if prm == nil || h.Signature.Results().Len() != 1 {
		return "an end border is rewritten to something other than the index key of the user key it splits", false
	}
	var dc *ssa.Call
	for _, c := range callsIn(h) {
		if cc, ok := c.(*ssa.Call); ok && r.is(c, r.Decode) && resolve(argForSigParam(c, 0)) == ssa.Value(prm) {
			dc = cc
		}
	}
	if dc == nil {
		return funcName(h) + " does not decode the border it is handed", false
	}
	exs := extractsOf(dc)
	excuse := func(cf condFact) bool {
		if cf.X == nil {
			return false
		}
		x, y := resolve(cf.X), resolve(cf.Y)
		eq := (cf.Op == token.EQL && cf.Want) || (cf.Op == token.NEQ && !cf.Want)
		ne := (cf.Op == token.NEQ && cf.Want) || (cf.Op == token.EQL && !cf.Want)
		if len(exs) > 2 && exs[2] != nil && x == ssa.Value(exs[2]) && isNilConst(y) && ne {
			return true
		}
		if len(exs) > 1 && exs[1] != nil && x == ssa.Value(exs[1]) && isZeroConst(y) && eq {
			return true
		}
		return false
	}
	var judge func(v ssa.Value, at, to *ssa.BasicBlock, d int) (string, bool)
	judge = func(v ssa.Value, at, to *ssa.BasicBlock, d int) (string, bool) {
		v = resolve(v)
		if d > 4 {
			return "not recognised", false
		}
		if phi, ok := v.(*ssa.Phi); ok {
			for i, e := range phi.Edges {
				if why, ok := judge(e, phi.Block().Preds[i], phi.Block(), d+1); !ok {
					return why, false
				}
			}
			return "", true
		}
		if v == ssa.Value(prm) {
			// unchanged: every path to this point passes an excusing edge
			target := to
			okAll, _ := allPathsPass(target, func(e edge) bool {
				for _, cf := range expandFact(edgeFact(e), 0) {
					if excuse(cf) {
						return true
					}
				}
				return false
			})
			if at != nil && !okAll {
				// the value arrives over one particular edge: that edge may be the excusing one
				if ifOf(at) != nil {
					for si, sc := range at.Succs {
						if sc == to && at.Succs[1-si] != to {
							for _, cf := range expandFact(edgeFact(edge{at, si}), 0) {
								if excuse(cf) {
									okAll = true
								}
							}
						}
					}
				}
				if !okAll {
					okAll, _ = allPathsPass(at, func(e edge) bool {
						for _, cf := range expandFact(edgeFact(e), 0) {
							if excuse(cf) {
								return true
							}
						}
						return false
					})
				}
			}
			if okAll {
				return "", true
			}
			return "an end border that lies inside one key's versions can be left where it is (" + funcName(h) + " returns it unchanged on a path on which it decoded to a version key): that key is then split between two workers and returned twice", false
		}
		kp := p.keyProvenance(v)
		if kp.Kind == keyIndex {
			if c, idx, ok := extractOf(kp.RawKey); ok && idx == 0 && c == dc {
				return "", true
			}
		}
		return "an end border is rewritten to something other than the index key of the user key it splits", false
	}
	n := 0
	for _, b := range h.Blocks {
		ret, ok := b.Instrs[len(b.Instrs)-1].(*ssa.Return)
		if !ok || b.Comment == "recover" {
			continue
		}
		n++
		if !instrDominates(dc, ret) {
			return funcName(h) + " returns on a path on which it has not decoded the border", false
		}
		if why, ok := judge(ret.Results[0], nil, b, 0); !ok {
			return why, false
		}
	}
	if n == 0 {
		return "not recognised", false
	}
	return "realigned by " + funcName(h) + ": the index key of the decoded user key, or the border itself where it is not a version key", true
}

// checkScanCancellationIsAnError (C13-R8): a scan that stops because its context is done stops with an error. In the
// scanner package, every return reached from the `<-ctx.Done()` case of a select carries a non-nil error: a retry
// condition that answers "done, no error" there makes the read return what the finished partitions had, as a success.
func checkScanCancellationIsAnError(p *Prog, res *Result, rule string) {
	sp := p.ssaPkg("pkg/backend/scanner")
	n := 0
	for _, f := range p.AllFuncs {
		if f.Pkg != sp || f.Blocks == nil {
			continue
		}
		ei := errorResultIndex(f.Signature)
		k := 0
		for _, b := range f.Blocks {
			for _, ins := range b.Instrs {
				sel, ok := ins.(*ssa.Select)
				if !ok {
					continue
				}
				for si, st := range sel.States {
					if st.Dir != types.RecvOnly {
						continue
					}
					dc, ok := resolve(st.Chan).(*ssa.Call)
					if !ok || !dc.Common().IsInvoke() || dc.Common().Method.Name() != "Done" || dc.Common().Method.Pkg() == nil || dc.Common().Method.Pkg().Path() != "context" {
						continue
					}
					n++
					k++
					construct := fmt.Sprintf("%s: the ctx.Done() case #%d ends with an error", funcName(f), k)
					if ei < 0 {
						res.ok(rule, construct, p.pos(sel.Pos()), "the function has no error result (a producer that stops)")
						continue
					}
					// the block(s) entered when the select chose this case: edge index == si
					var idxV ssa.Value
					for _, ref := range *sel.Referrers() {
						if ex, ok := ref.(*ssa.Extract); ok && ex.Index == 0 {
							idxV = ex
						}
					}
					var bad *ssa.Return
					for _, rb := range f.Blocks {
						ret, ok := rb.Instrs[len(rb.Instrs)-1].(*ssa.Return)
						if !ok || ei >= len(ret.Results) || !isNilConst(resolve(ret.Results[ei])) {
							continue
						}
						for _, cf := range localFacts(rb) {
							if cf.X == nil || idxV == nil {
								continue
							}
							if resolve(cf.X) == idxV {
								if kk, ok := constInt(cf.Y); ok && int(kk) == si && ((cf.Op == token.EQL && cf.Want) || (cf.Op == token.NEQ && !cf.Want)) {
									bad = ret
								}
							}
						}
					}
					if bad != nil {
						res.bad(rule, construct, p.pos(bad.Pos()), "the function returns a nil error from the case that fires when its context is done: the scan stops early and its caller takes what was read so far for the complete result (Range / Count answer from the partitions that had finished, the stream ends with a clean terminator)")
					} else {
						res.ok(rule, construct, p.pos(sel.Pos()), "no nil-error return under the ctx.Done() case")
					}
				}
			}
		}
	}
	if n == 0 {
		res.ok(rule, "scanner: ctx.Done() cases", "-", "no select on ctx.Done() in the scanner package")
	}
}
