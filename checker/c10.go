package main

import (
	"fmt"
	"go/constant"
	"go/token"
	"go/types"
	"math"
	"sort"
	"strings"

	"golang.org/x/tools/go/ssa"
)

func init() { register("C10", checkC10) }

// lin is a linear form a + b*N where N is the length of the function's byte-slice parameter.
type lin struct{ a, b int64 }

func (l lin) String() string {
	switch {
	case l.b == 0:
		return fmt.Sprintf("%d", l.a)
	case l.a == 0:
		return fmt.Sprintf("%d*N", l.b)
	}
	return fmt.Sprintf("%d+%d*N", l.a, l.b)
}

type linEval struct {
	p     *Prog
	param *ssa.Parameter // the []byte parameter whose length is N
}

// globalInit returns the value stored to package variable g by its package initialiser, if it is stored exactly once
// in the whole program.
func (p *Prog) globalInit(g *ssa.Global) (ssa.Value, bool) {
	var val ssa.Value
	n := 0
	for _, f := range p.allFuncsWithInit() {
		for _, b := range f.Blocks {
			for _, ins := range b.Instrs {
				if st, ok := ins.(*ssa.Store); ok && st.Addr == ssa.Value(g) {
					val = st.Val
					n++
				}
			}
		}
	}
	return val, n == 1
}

// constLen: static length of a string / byte-slice valued expression built from package-level constants.
func (p *Prog) constLen(v ssa.Value, depth int) (int64, bool) {
	if depth > 6 {
		return 0, false
	}
	v = resolve(v)
	switch x := v.(type) {
	case *ssa.Const:
		if s, ok := constString(x); ok {
			return int64(len(s)), true
		}
	case *ssa.Convert:
		// string(byte) / []byte(string) / string([]byte)
		if b, ok := x.X.Type().Underlying().(*types.Basic); ok && b.Info()&types.IsInteger != 0 {
			if k, ok := p.constValue(x.X, depth+1); ok {
				if k < 0x80 {
					return 1, true
				}
				return 2, true
			}
			return 0, false
		}
		return p.constLen(x.X, depth+1)
	case *ssa.UnOp:
		if g := globalLoad(x); g != nil {
			if iv, ok := p.globalInit(g); ok {
				return p.constLen(iv, depth+1)
			}
		}
	case *ssa.Slice:
		return p.constLen(x.X, depth+1)
	}
	return 0, false
}

// constValue: integer value of an expression built from constants and once-initialised package variables.
func (p *Prog) constValue(v ssa.Value, depth int) (int64, bool) {
	if depth > 6 {
		return 0, false
	}
	v = resolve(v)
	switch x := v.(type) {
	case *ssa.Const:
		if x.Value != nil && x.Value.Kind() == constant.Int {
			return constant.Int64Val(x.Value)
		}
	case *ssa.Convert:
		return p.constValue(x.X, depth+1)
	case *ssa.UnOp:
		if g := globalLoad(x); g != nil {
			if iv, ok := p.globalInit(g); ok {
				return p.constValue(iv, depth+1)
			}
		}
	}
	return 0, false
}

func (e *linEval) eval(v ssa.Value, depth int) (lin, bool) {
	if depth > 12 {
		return lin{}, false
	}
	v = resolve(v)
	switch x := v.(type) {
	case *ssa.Const:
		if k, ok := constInt(x); ok {
			return lin{k, 0}, true
		}
	case *ssa.BinOp:
		l, ok1 := e.eval(x.X, depth+1)
		r, ok2 := e.eval(x.Y, depth+1)
		if !ok1 || !ok2 {
			return lin{}, false
		}
		switch x.Op {
		case token.ADD:
			return lin{l.a + r.a, l.b + r.b}, true
		case token.SUB:
			return lin{l.a - r.a, l.b - r.b}, true
		}
	case *ssa.Call:
		if bi, ok := x.Common().Value.(*ssa.Builtin); ok && bi.Name() == "len" {
			arg := resolve(x.Common().Args[0])
			if arg == ssa.Value(e.param) {
				return lin{0, 1}, true
			}
			if k, ok := e.p.constLen(arg, 0); ok {
				return lin{k, 0}, true
			}
		}
	}
	return lin{}, false
}

type region struct {
	name   string
	lo, hi lin
	pos    token.Pos
	haveHi bool
}

func checkC10(p *Prog, res *Result, tier string) {
	r := p.roles()
	res.Explanation = "Round-trip and ordering for all byte strings are value properties of three small pure functions and are not decided (that needs testing, SMT or proof). Decided is the agreement of the writer's and the reader's layout tables, read off the code as linear forms in the key length: R1 the encoder writes magic, user key, separator and revision at offsets [0,m) [m,m+N) m+N [m+N+1,m+N+9) of a buffer of m+N+9 bytes and the decoder reads the same four regions when L = m+N+9 is substituted; any length guard of the decoder admits every encoded length (including N = 0). R2 every revision is encoded / decoded big-endian everywhere in the repository. R3 the separator is not greater than '$' (the documented alphabet is every byte greater than '$') and the index key is the version key with revision constant 0. R4 index-record values have static length 8 or 9 and the parser's and the scanner's length constants agree."
	res.NotDecided = "reversibility and ordering themselves, PrefixEnd, enclosure of range bounds — value properties."
	res.Assumptions = []string{"package-level layout variables (magic, separator) are written only by their initialisers (checked)"}
	res.rule("C10-R1", "encoder and decoder agree on the four regions of an internal key; decoder length guards admit all encoded lengths", 5)
	res.rule("C10-R2", "all revision encodings use binary.BigEndian", 8)
	res.rule("C10-R3", "separator <= '$'; index key = version key at revision 0", 2)
	res.rule("C10-R4", "index values are 8 or 8+1 bytes; parser and scanner agree on the constants", 6)
	res.rule("C10-R7", "range bounds built by the backend's range-style entry points (List, Count, GetPartitions, compaction) are index keys: EncodeObjectKey(.., 0)", 4)
	res.rule("C10-R6", "constant revisions used to build internal keys (bounds of a key's versions) are 0 or the maximal uint64", 12)
	res.rule("C10-R5", "partition bounds derived from internal keys stay contiguous and are realigned to index keys, so all records of one key stay in one scanned interval (C13-R5)", 2)

	// ---- R6: constant revisions in key bounds ----
	{
		n := 0
		for _, f := range p.AllFuncs {
			if f.Synthetic != "" || f.Pkg == nil || !strings.HasPrefix(f.Pkg.Pkg.Path(), modPath) {
				continue
			}
			k := 0
			for _, c := range callsIn(f) {
				if !r.is(c, r.EncObj) {
					continue
				}
				rev := argForSigParam(c, 1)
				var consts []*ssa.Const
				seenV, seenK := map[ssa.Value]bool{}, map[string]bool{}
				var collect func(v ssa.Value, d int)
				collect = func(v ssa.Value, d int) {
					v = resolve(v)
					if v == nil || seenV[v] {
						return
					}
					seenV[v] = true
					switch x := v.(type) {
					case *ssa.Const:
						if x.Value != nil && !seenK[x.Value.ExactString()] {
							seenK[x.Value.ExactString()] = true
							consts = append(consts, x)
						}
					case *ssa.Phi:
						if d < 4 {
							for _, e := range x.Edges {
								collect(e, d+1)
							}
						}
					}
				}
				collect(rev, 0)
				for _, kc := range consts {
					k++
					n++
					construct := fmt.Sprintf("%s: constant revision #%d in an internal key", funcName(f), k)
					u, exact := constant.Uint64Val(constant.ToInt(kc.Value))
					if kc.Value != nil && exact && (u == 0 || u == math.MaxUint64) {
						res.ok("C10-R6", construct, p.pos(c.Pos()), fmt.Sprintf("%d", u))
					} else {
						res.bad("C10-R6", construct, p.pos(c.Pos()), "an internal key is built with a constant revision that is neither 0 (the index record, the lower end of a key's versions) nor the maximal revision (their upper end): a bound built from it does not enclose all versions of the key, and versions beyond it are invisible to the read that uses it")
					}
				}
			}
		}
		if n == 0 {
			res.und("C10-R6", "constant revisions", "-", "no internal key with a constant revision found")
		}
	}

	checkRangeBoundsAreIndexKeys(p, r, res, "C10-R7")

	cp := p.ssaPkg("pkg/backend/coder")
	enc := p.implIn(r.EncObj, "pkg/backend/coder")
	dec := p.implIn(r.Decode, "pkg/backend/coder")
	encRev := p.implIn(r.EncRev, "pkg/backend/coder")
	if enc == nil || dec == nil || encRev == nil {
		brokenf("coder implementation not found")
	}

	// ---- R1: encoder regions ----
	var userKey *ssa.Parameter
	for _, prm := range enc.Params {
		if _, ok := prm.Type().Underlying().(*types.Slice); ok {
			userKey = prm
		}
	}
	ee := &linEval{p: p, param: userKey}
	var total lin
	var buf ssa.Value
	okTotal := false
	for _, b := range enc.Blocks {
		for _, ins := range b.Instrs {
			if ms, ok := ins.(*ssa.MakeSlice); ok {
				total, okTotal = ee.eval(ms.Len, 0)
				buf = ms
			}
		}
	}
	encRegions := map[string]region{}
	offsetOf := func(dst ssa.Value) (lin, bool) {
		dst = resolve(dst)
		if dst == buf {
			return lin{0, 0}, true
		}
		if sl, ok := dst.(*ssa.Slice); ok && resolve(sl.X) == buf && sl.Low != nil {
			return ee.eval(sl.Low, 0)
		}
		return lin{}, false
	}
	// the encoder may also be written as a chain of appends: base ++ piece ++ piece ..; the pieces give the same table
	appendForm := false
	if !okTotal || func() bool {
		for _, c := range callsIn(enc) {
			if bi, ok := c.Common().Value.(*ssa.Builtin); ok && bi.Name() == "copy" {
				return false
			}
		}
		return true
	}() {
		if regs, tot, shared, ok := encoderAppendChain(p, enc, userKey); ok {
			encRegions, total, okTotal, appendForm = regs, tot, true, true
			construct := funcName(enc) + ": the encoded key is a fresh array"
			if shared != nil {
				res.bad("C10-R1", construct, p.pos(shared.Pos()), "the key is appended onto a package-level slice: when that slice has spare capacity the bytes are written into its shared array, so two requests that encode keys at the same time overwrite each other's key (reads and writes go to another key's records)")
			} else {
				res.ok("C10-R1", construct, p.pos(enc.Pos()), "append chain starting from a fresh (or nil) slice")
			}
		}
	}
	if !okTotal {
		res.und("C10-R1", funcName(enc)+": buffer length", p.pos(enc.Pos()), "cannot evaluate the encoder's buffer length as a linear form")
	} else if !appendForm {
		for _, c := range callsIn(enc) {
			cc := c.Common()
			if bi, ok := cc.Value.(*ssa.Builtin); ok && bi.Name() == "copy" {
				off, ok := offsetOf(cc.Args[0])
				if !ok {
					res.und("C10-R1", funcName(enc)+": copy destination", p.pos(c.Pos()), "destination offset not a linear form")
					continue
				}
				src := resolve(cc.Args[1])
				switch {
				case src == ssa.Value(userKey):
					encRegions["key"] = region{"key", off, lin{off.a, off.b + 1}, c.Pos(), true}
				default:
					n, ok := p.constLen(src, 0)
					if !ok {
						res.und("C10-R1", funcName(enc)+": copy source", p.pos(c.Pos()), "source length not constant")
						continue
					}
					name := "magic"
					if n == 1 {
						name = "separator"
					}
					encRegions[name] = region{name, off, lin{off.a + n, off.b}, c.Pos(), true}
				}
			}
			if isBigEndianCall(c, "PutUint64") {
				if off, ok := offsetOf(cc.Args[1]); ok {
					encRegions["revision"] = region{"revision", off, lin{off.a + 8, off.b}, c.Pos(), true}
				}
			}
		}
	}
	// ---- decoder regions ----
	var internal *ssa.Parameter
	for _, prm := range dec.Params {
		if _, ok := prm.Type().Underlying().(*types.Slice); ok {
			internal = prm
		}
	}
	de := &linEval{p: p, param: internal}
	decRegions := map[string]region{}
	for _, b := range dec.Blocks {
		for _, ins := range b.Instrs {
			switch x := ins.(type) {
			case *ssa.Call:
				sc := x.Common().StaticCallee()
				if sc != nil && sc.Pkg != nil && sc.Pkg.Pkg.Path() == "bytes" && sc.Name() == "Equal" {
					for _, a := range x.Common().Args {
						if sl, ok := resolve(a).(*ssa.Slice); ok && resolve(sl.X) == ssa.Value(internal) {
							lo := lin{0, 0}
							if sl.Low != nil {
								lo, _ = de.eval(sl.Low, 0)
							}
							if hi, ok := de.eval(sl.High, 0); ok && sl.High != nil {
								decRegions["magic"] = region{"magic", lo, hi, x.Pos(), true}
							}
						}
					}
				}
				if isBigEndianCall(x, "Uint64") {
					if sl, ok := resolve(x.Common().Args[1]).(*ssa.Slice); ok && resolve(sl.X) == ssa.Value(internal) && sl.Low != nil {
						if lo, ok := de.eval(sl.Low, 0); ok {
							hi := lin{0, 1}
							if sl.High != nil {
								hi, _ = de.eval(sl.High, 0)
							}
							decRegions["revision"] = region{"revision", lo, hi, x.Pos(), true}
						}
					}
				}
			case *ssa.IndexAddr:
				if resolve(x.X) == ssa.Value(internal) {
					if idx, ok := de.eval(x.Index, 0); ok {
						decRegions["separator"] = region{"separator", idx, lin{idx.a + 1, idx.b}, x.Pos(), true}
					}
				}
			case *ssa.Return:
				if sl, ok := resolve(x.Results[0]).(*ssa.Slice); ok && resolve(sl.X) == ssa.Value(internal) && sl.Low != nil && sl.High != nil {
					lo, ok1 := de.eval(sl.Low, 0)
					hi, ok2 := de.eval(sl.High, 0)
					if ok1 && ok2 {
						decRegions["key"] = region{"key", lo, hi, x.Pos(), true}
					}
				}
			}
		}
	}
	// substitute L = total (a_t + N) into decoder forms c + d*L
	subst := func(l lin) lin { return lin{l.a + l.b*total.a, l.b * total.b} }
	var layout []string
	for _, name := range []string{"magic", "key", "separator", "revision"} {
		construct := "layout region " + name + ": writer and reader agree"
		er, ok1 := encRegions[name]
		dr, ok2 := decRegions[name]
		if !ok1 || !ok2 || !okTotal {
			res.bad("C10-R1", construct, p.pos(enc.Pos()), fmt.Sprintf("the %s region could not be identified in both encoder (%v) and decoder (%v)", name, ok1, ok2))
			continue
		}
		dlo, dhi := subst(dr.lo), subst(dr.hi)
		layout = append(layout, fmt.Sprintf("%s: encoder [%s,%s) decoder [%s,%s) with L=%s", name, er.lo, er.hi, dlo, dhi, total))
		if er.lo == dlo && er.hi == dhi {
			res.ok("C10-R1", construct, p.pos(dr.pos), fmt.Sprintf("[%s,%s) on both sides (L = %s)", er.lo, er.hi, total))
		} else {
			res.bad("C10-R1", construct, p.pos(dr.pos), fmt.Sprintf("the encoder writes %s at [%s,%s) but the decoder reads it at [%s,%s) (with L = %s): decoding an encoded key does not give back key and revision", name, er.lo, er.hi, dlo, dhi, total))
		}
	}
	res.Stats["layout"] = layout
	if okTotal {
		// regions tile the buffer
		construct := "encoder regions tile the buffer"
		m, k, s, rv := encRegions["magic"], encRegions["key"], encRegions["separator"], encRegions["revision"]
		if m.lo == (lin{0, 0}) && m.hi == k.lo && k.hi == s.lo && s.hi == rv.lo && rv.hi == total {
			res.ok("C10-R1", construct, p.pos(enc.Pos()), fmt.Sprintf("magic|key|separator|revision = %s bytes", total))
		} else {
			res.bad("C10-R1", construct, p.pos(enc.Pos()), "the encoder's four regions do not tile its buffer exactly (gap or overlap): ordering by key then revision is lost")
		}
		// decoder guards on the length: error returns dominated by a comparison of len(internalKey) with a constant
		minLen := total.a // N = 0
		n := 0
		for _, b := range dec.Blocks {
			ret, ok := b.Instrs[len(b.Instrs)-1].(*ssa.Return)
			if !ok || isNilConst(resolve(ret.Results[len(ret.Results)-1])) {
				continue
			}
			// the guard is the branch that leads directly into this error return
			var guards []condFact
			for _, pr := range b.Preds {
				if ifOf(pr) == nil {
					continue
				}
				for s := 0; s < 2; s++ {
					if pr.Succs[s] == b {
						guards = append(guards, edgeFact(edge{pr, s}))
					}
				}
			}
			for _, cf := range guards {
				if cf.X == nil {
					continue
				}
				l, ok1 := de.eval(cf.X, 0)
				c, ok2 := de.eval(cf.Y, 0)
				if !ok1 || !ok2 || l.b != 1 || c.b != 0 {
					continue
				}
				// fact: (L + l.a) op c.a is Want  => rejected lengths
				n++
				construct := fmt.Sprintf("%s: length guard #%d admits every encoded key", funcName(dec), n)
				k := c.a - l.a
				rejectsMin := false
				op, want := cf.Op, cf.Want
				if !want {
					switch op {
					case token.LSS:
						op = token.GEQ
					case token.LEQ:
						op = token.GTR
					case token.GTR:
						op = token.LEQ
					case token.GEQ:
						op = token.LSS
					case token.EQL:
						op = token.NEQ
					case token.NEQ:
						op = token.EQL
					}
				}
				switch op {
				case token.LSS:
					rejectsMin = minLen < k
				case token.LEQ:
					rejectsMin = minLen <= k
				case token.GTR, token.GEQ, token.NEQ:
					rejectsMin = true // rejects arbitrarily long keys
				case token.EQL:
					rejectsMin = k >= minLen
				}
				if rejectsMin {
					res.bad("C10-R1", construct, p.pos(ret.Pos()), fmt.Sprintf("the decoder rejects internal keys by a length test that some encoded key satisfies (minimal encoded length is %d, for the empty user key): such a key no longer decodes and silently disappears from scans", minLen))
				} else {
					res.ok("C10-R1", construct, p.pos(ret.Pos()), fmt.Sprintf("rejects only lengths below the minimal encoded length %d", minLen))
				}
			}
		}
	}

	// ---- R2 ----
	nBE := 0
	for _, f := range p.AllFuncs {
		if f.Synthetic != "" {
			continue
		}
		cnt := 0
		for _, c := range callsIn(f) {
			sc := c.Common().StaticCallee()
			if sc == nil || sc.Signature.Recv() == nil || sc.Pkg == nil || sc.Pkg.Pkg.Path() != "encoding/binary" {
				continue
			}
			cnt++
			construct := fmt.Sprintf("%s: byte order of %s #%d", funcName(f), sc.Name(), cnt)
			if isNamed(sc.Signature.Recv().Type(), "encoding/binary", "bigEndian") {
				nBE++
				res.ok("C10-R2", construct, p.pos(c.Pos()), "BigEndian")
			} else {
				res.bad("C10-R2", construct, p.pos(c.Pos()), "a revision is encoded / decoded with a byte order other than big-endian: keys no longer sort by revision and index values written by one site are misread by another")
			}
		}
	}
	res.Stats["big_endian_sites"] = nBE

	// ---- R3 ----
	{
		var sepG *ssa.Global
		// the separator: the package variable compared with internalKey[L-9] in the decoder
		for _, b := range dec.Blocks {
			for _, ins := range b.Instrs {
				if bo, ok := ins.(*ssa.BinOp); ok && (bo.Op == token.NEQ || bo.Op == token.EQL) {
					if g := globalLoad(bo.Y); g != nil {
						sepG = g
					} else if g := globalLoad(bo.X); g != nil {
						sepG = g
					}
				}
			}
		}
		construct := "separator byte <= '$'"
		if sepG == nil {
			res.und("C10-R3", construct, p.pos(dec.Pos()), "separator variable not found")
		} else if iv, ok := p.globalInit(sepG); !ok {
			res.bad("C10-R3", construct, p.pos(sepG.Pos()), "the separator variable is written outside its initialiser")
		} else if k, ok := p.constValue(iv, 0); !ok {
			res.und("C10-R3", construct, p.pos(sepG.Pos()), "separator value not constant")
		} else if k <= '$' {
			res.ok("C10-R3", construct, p.pos(sepG.Pos()), fmt.Sprintf("separator = %d (%q)", k, rune(k)))
		} else {
			res.bad("C10-R3", construct, p.pos(sepG.Pos()), fmt.Sprintf("the separator byte %d is greater than '$': a user key containing a smaller byte sorts between the versions of a shorter key", k))
		}
		// magic written only by initialiser
		for _, name := range []string{} {
			_ = name
		}
		construct = funcName(encRev) + ": index key = version key at revision 0"
		good := false
		for _, b := range encRev.Blocks {
			if ret, ok := b.Instrs[len(b.Instrs)-1].(*ssa.Return); ok {
				if c, ok := resolve(ret.Results[0]).(*ssa.Call); ok && c.Common().StaticCallee() == enc {
					args := c.Common().Args
					if resolve(args[1]) == ssa.Value(encRev.Params[1]) && isZeroConst(args[2]) {
						good = true
					}
				}
			}
		}
		if good {
			res.ok("C10-R3", construct, p.pos(encRev.Pos()), "EncodeObjectKey(key, 0)")
		} else {
			res.bad("C10-R3", construct, p.pos(encRev.Pos()), "the index key is not the version key with revision 0: the index record is no longer first among a key's records")
		}
	}

	// ---- R4 ----
	for _, vb := range p.versionedBatches() {
		if vb.cond == nil {
			continue
		}
		name := vb.b.name() + ctxName(p, vb.ctx)
		for _, what := range []struct {
			label string
			v     ssa.Value
		}{{"new index value", vb.cond.Val}, {"expected index value", vb.cond.Old}} {
			if what.v == nil {
				continue
			}
			construct := name + ": static length of the " + what.label
			rb, ok := p.revisionBytesOf(p.ctxValue(what.v, vb.ctx))
			if !ok {
				// observed bytes (creator) have no static length
				if what.label == "expected index value" {
					continue
				}
				res.und("C10-R4", construct, p.pos(vb.cond.Call.Pos()), "not a recognised revision encoding")
				continue
			}
			if rb.Len == 0 || rb.Len == 8 || rb.Len == 9 {
				res.ok("C10-R4", construct, p.pos(vb.cond.Call.Pos()), fmt.Sprintf("8 bytes big-endian revision%s", map[bool]string{true: " + optional 1 flag byte", false: ""}[rb.Flag]))
			} else {
				res.bad("C10-R4", construct, p.pos(vb.cond.Call.Pos()), fmt.Sprintf("an index value of %d bytes is written; the parser accepts 8 (live) or 9 (deleted) only", rb.Len))
			}
		}
	}
	{
		// parser constants and the scanner's private copy
		live := constOf(p, "pkg/backend/coder", "RevisionValueLength")
		del := constOf(p, "pkg/backend/coder", "RevisionValueLengthWithDeletionFlag")
		construct := "parser constants: 8 (live) / 9 (deleted)"
		if live == 8 && del == 9 {
			res.ok("C10-R4", construct, "-", "RevisionValueLength = 8, RevisionValueLengthWithDeletionFlag = 9")
		} else {
			res.bad("C10-R4", construct, "-", fmt.Sprintf("the index-value parser accepts lengths %d / %d but writers produce 8 / 9", live, del))
		}
		// scanner: len(value) == K in the deletion-flag test must equal the coder's constant
		sp := p.ssaPkg("pkg/backend/scanner")
		n := 0
		for _, f := range p.AllFuncs {
			if f.Pkg != sp {
				continue
			}
			for _, b := range f.Blocks {
				for _, ins := range b.Instrs {
					bo, ok := ins.(*ssa.BinOp)
					if !ok || bo.Op != token.EQL {
						continue
					}
					k, ok := constInt(bo.Y)
					if !ok || !strings.HasPrefix(pureKey(bo.X), "len(") {
						continue
					}
					// len of an iterator value
					if c, ok := resolve(bo.X).(*ssa.Call); ok {
						if vc, ok := resolve(c.Common().Args[0]).(*ssa.Call); ok && r.is(vc, r.ItVal) {
							n++
							construct := fmt.Sprintf("%s: deletion-flag length test #%d agrees with the parser", funcName(f), n)
							if k == del {
								res.ok("C10-R4", construct, p.pos(bo.Pos()), fmt.Sprintf("len(value) == %d", k))
							} else {
								res.bad("C10-R4", construct, p.pos(bo.Pos()), fmt.Sprintf("the scanner recognises a deleted index record by length %d, the parser by %d", k, del))
							}
						}
					}
				}
			}
		}
	}
	_ = cp

	// ---- R5: the bounds of partitioned scans enclose exactly the records of the keys they split (C13-R5) ----
	sub13 := newResult("C13")
	checkBorderContiguity(p, r, sub13, p.ssaPkg("pkg/backend/scanner"))
	// .. and the advertised partition list covers the requested range with realigned borders (C13-R9)
	checkAdvertisedBorders(p, r, sub13, "C13-R9")
	for _, o := range sub13.Obls {
		res.add("C10-R5", o.Rule+" "+o.Construct, o.Status, o.Pos, o.Detail)
	}
	// ... and the scan attributes a record to the key it decodes to: it treats the previous record as superseded only
	// when the decoded user keys are equal (C07-R3) - the order of the encoding puts a key's records side by side,
	// but an index record may be missing
	{
		sub7 := p.subResult("C07", tier)
		for _, o := range sub7.Obls {
			// (C07-R9: .. and compaction ranges are ordered as internal keys: the border list is sorted after it was
			// encoded - the order of the names is not the order of the directories they denote)
			if o.Rule == "C07-R3" || (o.Rule == "C07-R9" && strings.Contains(o.Construct, "sorted")) {
				res.add("C10-R5", o.Rule+" "+o.Construct, o.Status, o.Pos, o.Detail)
			}
		}
	}
	// ... and the engine's partitions are clipped to the requested interval (C11-R7)
	sub11 := newResult("C11")
	checkPartitionClamp(p, r, sub11, "C11-R7")
	for _, o := range sub11.Obls {
		res.add("C10-R5", o.Rule+" "+o.Construct, o.Status, o.Pos, o.Detail)
	}
}

func constOf(p *Prog, pkgRel, name string) int64 {
	pk := p.pkg(pkgRel)
	obj := pk.Types.Scope().Lookup(name)
	c, ok := obj.(*types.Const)
	if !ok {
		brokenf("constant %s.%s not found", pkgRel, name)
	}
	v, _ := constant.Int64Val(c.Val())
	return v
}

// encoderAppendChain reads the layout of an encoder written as return append(append(append(base, A...), b), C...):
// the pieces in order, with cumulative offsets as linear forms in the key length. shared is the instruction that
// loads a package-level slice used as the base of the chain (nil if the base is fresh).
func encoderAppendChain(p *Prog, enc *ssa.Function, userKey *ssa.Parameter) (map[string]region, lin, ssa.Instruction, bool) {
	var retv ssa.Value
	for _, b := range enc.Blocks {
		if ret, ok := b.Instrs[len(b.Instrs)-1].(*ssa.Return); ok && len(ret.Results) == 1 {
			if retv != nil {
				return nil, lin{}, nil, false
			}
			retv = ret.Results[0]
		}
	}
	type piece struct {
		name string
		n    lin
		pos  token.Pos
	}
	var pieces []piece
	var shared ssa.Instruction
	var walk func(v ssa.Value, d int) bool
	walk = func(v ssa.Value, d int) bool {
		v = resolve(v)
		if d > 8 {
			return false
		}
		switch x := v.(type) {
		case *ssa.Const:
			return x.Value == nil // nil slice
		case *ssa.MakeSlice:
			n, ok := constInt(x.Len)
			return ok && n == 0
		case *ssa.UnOp:
			if g := globalLoad(x); g != nil {
				n, ok := p.constLen(x, 0)
				if !ok {
					return false
				}
				shared = x
				name := "magic"
				if n == 1 {
					name = "separator"
				}
				pieces = append(pieces, piece{name, lin{n, 0}, x.Pos()})
				return true
			}
			return false
		case *ssa.Call:
			bi, ok := x.Common().Value.(*ssa.Builtin)
			if !ok || bi.Name() != "append" || len(x.Common().Args) != 2 {
				return false
			}
			if !walk(x.Common().Args[0], d+1) {
				return false
			}
			tail := resolve(x.Common().Args[1])
			if tail == ssa.Value(userKey) {
				pieces = append(pieces, piece{"key", lin{0, 1}, x.Pos()})
				return true
			}
			if sl, ok := tail.(*ssa.Slice); ok {
				if al, ok := sl.X.(*ssa.Alloc); ok {
					if at, ok := al.Type().Underlying().(*types.Pointer).Elem().Underlying().(*types.Array); ok && sl.Low == nil && sl.High == nil {
						name := "magic"
						if at.Len() == 1 {
							name = "separator"
						}
						for _, c := range callsIn(enc) {
							if isBigEndianCall(c, "PutUint64") {
								if s2, ok := resolve(c.Common().Args[1]).(*ssa.Slice); ok && s2.X == ssa.Value(al) {
									name = "revision"
								}
							}
						}
						pieces = append(pieces, piece{name, lin{at.Len(), 0}, x.Pos()})
						return true
					}
				}
			}
			if n, ok := p.constLen(tail, 0); ok {
				name := "magic"
				if n == 1 {
					name = "separator"
				}
				pieces = append(pieces, piece{name, lin{n, 0}, x.Pos()})
				return true
			}
			return false
		}
		return false
	}
	if retv == nil || !walk(retv, 0) || len(pieces) == 0 {
		return nil, lin{}, nil, false
	}
	regs := map[string]region{}
	off := lin{0, 0}
	for _, pc := range pieces {
		hi := lin{off.a + pc.n.a, off.b + pc.n.b}
		if _, dup := regs[pc.name]; dup {
			return nil, lin{}, nil, false
		}
		regs[pc.name] = region{pc.name, off, hi, pc.pos, true}
		off = hi
	}
	return regs, off, shared, true
}

// checkRangeBoundsAreIndexKeys: a range [Key, End) of user keys is the range of internal keys from the index record of
// Key up to, not including, the index record of End - the index record (revision 0) sorts before every version of its
// key. Every bound that a range-style entry point of pkg/backend builds with EncodeObjectKey for the scanner or for
// the engine's partition listing carries the constant revision 0: a bound at a revision above 0 also encloses the index
// record and the older versions of End (or excludes those of Key), and List, Count and GetPartitions stop agreeing.
func checkRangeBoundsAreIndexKeys(p *Prog, r *Roles, res *Result, rule string) {
	bp := p.ssaPkg("pkg/backend")
	scan := map[*types.Func]bool{}
	for _, m := range []string{"Range", "Count", "RangeStream", "Compact"} {
		if f := p.ifaceMethod("pkg/backend/scanner", "Scanner", m); f != nil {
			scan[f] = true
		}
	}
	scan[r.KVGetPartitions] = true
	n := 0
	var fs []*ssa.Function
	for _, f := range p.AllFuncs {
		if f.Pkg == bp && f.Blocks != nil && f.Synthetic == "" {
			fs = append(fs, f)
		}
	}
	sort.Slice(fs, func(i, j int) bool { return funcName(fs[i]) < funcName(fs[j]) })
	for _, f := range fs {
		k := 0
		for _, c := range callsIn(f) {
			if !c.Common().IsInvoke() || !scan[c.Common().Method] {
				continue
			}
			for ai, a := range c.Common().Args {
				// the encoder call behind the operand: directly, or as what a helper of the package returns in that position
				var encs []*ssa.Call
				switch x := resolve(a).(type) {
				case *ssa.Call:
					if r.is(x, r.EncObj) {
						encs = append(encs, x)
					}
				case *ssa.Extract:
					if hc, ok := x.Tuple.(*ssa.Call); ok {
						if h := hc.Common().StaticCallee(); h != nil && h.Blocks != nil && h.Pkg == bp {
							for _, hb := range h.Blocks {
								if ret, ok := hb.Instrs[len(hb.Instrs)-1].(*ssa.Return); ok && x.Index < len(ret.Results) {
									for _, rv := range allCellValuesOpt(p, ret.Results[x.Index], false) {
										if e, ok := resolve(rv).(*ssa.Call); ok && r.is(e, r.EncObj) {
											encs = append(encs, e)
										}
									}
								}
							}
						}
					}
				}
				for _, enc := range encs {
					k++
					n++
					construct := fmt.Sprintf("%s: range bound #%d (%s argument %d) is an index key", funcName(f), k, c.Common().Method.Name(), ai)
					if isZeroConst(argForSigParam(enc, 1)) {
						res.ok(rule, construct, p.pos(enc.Pos()), "EncodeObjectKey(.., 0)")
					} else {
						res.bad(rule, construct, p.pos(enc.Pos()), "a range bound is encoded at a revision other than the constant 0: the interval also encloses (or loses) the index record and older versions of the boundary key, so this entry point counts or lists a key its siblings leave out")
					}
				}
			}
		}
	}
	if n == 0 {
		res.und(rule, "pkg/backend: range bounds", "-", "no encoded range bound found")
	}
}

// checkIterTimestamps: revisions and engine timestamps are different clocks (revisions are seeded from the engine's
// clock when a leader starts and then grow by one per write; TiKV's timestamps grow with wall-clock time). The
// timestamp operand of KvStorage.Iter outside the adapters is the constant 0 ("latest") or a value obtained from
// GetTimestampOracle (directly, or through a field every store of which is such a value) - never a revision: TiKV
// would read a snapshot that lies before every write of the current term, the other engines ignore the operand.
func checkIterTimestamps(p *Prog, r *Roles, res *Result, rule string) {
	var isTS func(v ssa.Value, d int, seen map[ssa.Value]bool) bool
	isTS = func(v ssa.Value, d int, seen map[ssa.Value]bool) bool {
		if d > 8 {
			return false
		}
		for _, x := range resolveAll(v) {
			x = p.resolveDeep(x)
			if seen[x] {
				continue
			}
			seen[x] = true
			if isZeroConst(x) {
				continue
			}
			if call, idx, ok := extractOf(x); ok && idx == 0 && r.is(call, r.KVGetTSO) {
				continue
			}
			var fv *types.Var
			switch y := x.(type) {
			case *ssa.UnOp:
				if fa, ok := y.X.(*ssa.FieldAddr); ok && y.Op == token.MUL {
					fv = fieldOf(fa)
				}
			case *ssa.Field:
				fv = fieldOfField(y)
			case *ssa.Parameter:
				acts := p.paramActuals(y)
				if len(acts) == 0 {
					return false
				}
				for _, a := range acts {
					if !isTS(a, d+1, seen) {
						return false
					}
				}
				continue
			}
			if fv == nil || fv.Pkg() == nil || !strings.HasPrefix(fv.Pkg().Path(), modPath) {
				return false
			}
			stores := p.fields().stores[fv]
			if len(stores) == 0 {
				return false
			}
			for _, st := range stores {
				if !isTS(st.Val, d+1, seen) {
					return false
				}
			}
		}
		return true
	}
	n := 0
	var fs []*ssa.Function
	for _, f := range p.AllFuncs {
		if f.Pkg == nil || f.Blocks == nil || f.Synthetic != "" {
			continue
		}
		pp := f.Pkg.Pkg.Path()
		if strings.HasPrefix(pp, modPath+"/pkg/") && !strings.HasPrefix(pp, modPath+"/pkg/storage") {
			fs = append(fs, f)
		}
	}
	sort.Slice(fs, func(i, j int) bool { return funcName(fs[i]) < funcName(fs[j]) })
	for _, f := range fs {
		k := 0
		for _, c := range callsIn(f) {
			if !c.Common().IsInvoke() || !r.is(c, r.KVIter) {
				continue
			}
			k++
			n++
			construct := fmt.Sprintf("%s: snapshot timestamp of iterator #%d", funcName(f), k)
			ts := argForSigParam(c, 3)
			if isTS(ts, 0, map[ssa.Value]bool{}) {
				res.ok(rule, construct, p.pos(c.Pos()), "constant 0 or a value of GetTimestampOracle")
			} else {
				res.bad(rule, construct, p.pos(c.Pos()), "the timestamp operand of the engine iterator is not a timestamp of the engine's oracle (a revision?): an engine with timestamped snapshots reads a snapshot unrelated to the requested revision - on TiKV one that lies before every write of the current term - while the other engines ignore the operand")
			}
		}
	}
	if n == 0 {
		res.und(rule, "engine iterators outside the adapters", "-", "none found")
	}
}
