package main

import (
	"fmt"
	"go/constant"
	"go/token"
	"go/types"
	"strings"

	"golang.org/x/tools/go/ssa"
)

// Rules added in round 11.

func isRepoFn(f *ssa.Function) bool {
	return f != nil && f.Pkg != nil && f.Blocks != nil && strings.HasPrefix(f.Pkg.Pkg.Path(), modPath)
}

// ---------- C13-R10: the less function of a sort indexes the slice that is sorted ----------

// cellKey names the storage a slice expression reads: loads and field selections over a root that is an allocation, a
// parameter, a global, or (inside a function literal) the variable the free variable is bound to.
func cellKey(v ssa.Value, bind map[*ssa.FreeVar]ssa.Value, d int) (string, bool) {
	if d > 6 {
		return "", false
	}
	switch x := v.(type) {
	case *ssa.UnOp:
		k, ok := cellKey(x.X, bind, d+1)
		return "*" + k, ok
	case *ssa.FieldAddr:
		k, ok := cellKey(x.X, bind, d+1)
		return fmt.Sprintf("%s.%d", k, x.Field), ok
	case *ssa.Field:
		k, ok := cellKey(x.X, bind, d+1)
		return fmt.Sprintf("%s.%d", k, x.Field), ok
	case *ssa.FreeVar:
		if b, ok := bind[x]; ok {
			return cellKey(b, nil, d+1)
		}
		return "", false
	case *ssa.Alloc, *ssa.Parameter, *ssa.Global:
		return fmt.Sprintf("%p", x), true
	case *ssa.ChangeType:
		return cellKey(x.X, bind, d+1)
	}
	return "", false
}

func checkSortLessIndexesSorted(p *Prog, res *Result, rule string) {
	n := 0
	for _, f := range p.AllFuncs {
		if !isRepoFn(f) {
			continue
		}
		k := 0
		for _, c := range callsIn(f) {
			sc := c.Common().StaticCallee()
			if sc == nil || sc.Pkg == nil || sc.Pkg.Pkg.Path() != "sort" || (sc.Name() != "Slice" && sc.Name() != "SliceStable") {
				continue
			}
			args := c.Common().Args
			mi, ok := args[0].(*ssa.MakeInterface)
			if !ok {
				continue
			}
			mc, ok := args[1].(*ssa.MakeClosure)
			if !ok {
				continue // the less function is built elsewhere
			}
			less, ok := mc.Fn.(*ssa.Function)
			if !ok || less.Blocks == nil {
				continue
			}
			k++
			n++
			construct := fmt.Sprintf("%s: sort #%d compares elements of the slice it sorts", funcName(f), k)
			sortedKey, ok1 := cellKey(mi.X, nil, 0)
			bind := map[*ssa.FreeVar]ssa.Value{}
			for i, fv := range less.FreeVars {
				if i < len(mc.Bindings) {
					bind[fv] = mc.Bindings[i]
				}
			}
			isParam := func(v ssa.Value) bool {
				for _, pr := range less.Params {
					if strip(v) == ssa.Value(pr) {
						return true
					}
				}
				return false
			}
			bad, judged := "", 0
			for _, b := range less.Blocks {
				for _, ins := range b.Instrs {
					ia, ok := ins.(*ssa.IndexAddr)
					if !ok || !isParam(ia.Index) {
						continue
					}
					if !types.Identical(ia.X.Type(), mi.X.Type()) {
						continue
					}
					key, ok2 := cellKey(ia.X, bind, 0)
					if !ok1 {
						// the sorted slice is a register value: the variable the literal reads must have been given that value
						ld, isLd := ia.X.(*ssa.UnOp)
						if !isLd {
							continue
						}
						fv, isFv := ld.X.(*ssa.FreeVar)
						cell, isCell := bind[fv].(*ssa.Alloc)
						if !isFv || !isCell {
							continue
						}
						concrete := func(v ssa.Value) bool {
							switch v.(type) {
							case *ssa.MakeSlice, *ssa.Parameter, *ssa.Call, *ssa.Slice:
								return true
							}
							return false
						}
						S := map[ssa.Value]bool{}
						all := true
						for _, v := range resolveAll(mi.X) {
							S[v] = true
							all = all && concrete(v)
						}
						stores, _ := cellStores(cell)
						shared := false
						for _, st := range stores {
							for _, v := range resolveAll(st.Val) {
								if S[v] {
									shared = true
								}
								all = all && concrete(v)
							}
						}
						if len(stores) == 0 || !all {
							continue
						}
						judged++
						if !shared {
							bad = p.pos(ia.Pos())
						}
						continue
					}
					if !ok2 {
						continue
					}
					judged++
					if key != sortedKey {
						bad = p.pos(ia.Pos())
					}
				}
			}
			if bad != "" {
				res.bad(rule, construct, bad, "the less function indexes, with the positions sort.Slice hands it, a slice variable other than the one being sorted: the positions refer to the sorted slice as it is permuted, so the comparison reads unrelated elements and the result is not ordered")
			} else {
				res.ok(rule, construct, p.pos(c.Pos()), fmt.Sprintf("%d indexed reads, all of the sorted slice", judged))
			}
		}
	}
	if n == 0 {
		res.und(rule, "sort.Slice with a function literal", "-", "none found")
	}
}

// ---------- C11-R19: snapshot reads of the TiKV adapter stay at snapshot isolation ----------

func checkSnapshotIsolationKept(p *Prog, res *Result, rule string) {
	n := 0
	for _, f := range p.AllFuncs {
		if !isRepoFn(f) || !strings.Contains(f.Pkg.Pkg.Path(), "/pkg/storage/") {
			continue
		}
		k := 0
		for _, c := range callsIn(f) {
			sc := c.Common().StaticCallee()
			if sc == nil || sc.Pkg == nil || !strings.Contains(sc.Pkg.Pkg.Path(), "tikv/client-go") {
				continue
			}
			switch sc.Name() {
			case "GetSnapshot":
				n++
				res.ok(rule, fmt.Sprintf("%s: snapshot #%d", funcName(f), n), p.pos(c.Pos()), "snapshot taken (snapshot isolation is the client's default)")
			case "SetIsolationLevel":
				k++
				n++
				args := c.Common().Args
				lv := args[len(args)-1]
				construct := fmt.Sprintf("%s: isolation level #%d", funcName(f), k)
				if cst, ok := strip(lv).(*ssa.Const); ok && cst.Value != nil && cst.Value.Kind() == constant.Int && constant.Sign(cst.Value) == 0 {
					res.ok(rule, construct, p.pos(c.Pos()), "set to snapshot isolation")
				} else {
					res.bad(rule, construct, p.pos(c.Pos()), "the snapshot's isolation level is set to something other than snapshot isolation: a read-committed read does not wait for (or resolve) the lock of a transaction that has a commit timestamp at or below the snapshot, so a scan can miss a record that a later read at the same snapshot returns - the read is not a snapshot")
				}
			}
		}
	}
	if n == 0 {
		res.und(rule, "TiKV adapter snapshots", "-", "no GetSnapshot call found")
	}
}

// ---------- C11-R20: the in-process engine's Commit is all-or-nothing ----------

func checkCommitNoErrorAfterApply(p *Prog, r *Roles, res *Result, rule string) {
	commit := p.implIn(r.BWCommit, "pkg/storage/memkv")
	if commit == nil {
		res.und(rule, "memkv batch: Commit", "-", "not found")
		return
	}
	// which functions of the package change the store (directly, or through the package functions they call)
	memo := map[*ssa.Function]int{}
	var mutates func(f *ssa.Function, d int) bool
	mutates = func(f *ssa.Function, d int) bool {
		if f == nil || f.Blocks == nil || f.Pkg != commit.Pkg || d > 3 {
			return false
		}
		if v, ok := memo[f]; ok {
			return v == 1
		}
		memo[f] = 0
		for _, c := range callsIn(f) {
			if _, isGo := c.(*ssa.Go); isGo {
				continue
			}
			if isEngineCall(c, "Remove", "Set", "RemoveElement") || mutates(c.Common().StaticCallee(), d+1) {
				memo[f] = 1
				return true
			}
		}
		return false
	}
	n := 0
	seen := map[*ssa.Function]bool{}
	var judge func(f *ssa.Function, d int)
	judge = func(f *ssa.Function, d int) {
		if seen[f] || d > 3 {
			return
		}
		seen[f] = true
		ei := errorResultIndex(f.Signature)
		k := 0
		for _, c := range callsIn(f) {
			if _, isGo := c.(*ssa.Go); isGo {
				continue
			}
			direct := isEngineCall(c, "Remove", "Set", "RemoveElement")
			sc := c.Common().StaticCallee()
			if !direct && !mutates(sc, 0) {
				continue
			}
			if !direct {
				judge(sc, d+1)
			}
			if ei < 0 {
				continue
			}
			k++
			n++
			construct := fmt.Sprintf("%s: no failure is reported after store mutation #%d", funcName(f), k)
			pa := posOf(c)
			ins, _ := searchFrom(pa.b, pa.i+1, searchOpts{
				bad: func(i ssa.Instruction) bool {
					ret, ok := i.(*ssa.Return)
					if !ok || ei >= len(ret.Results) {
						return false
					}
					// the error of the mutating helper itself is judged inside the helper: there it can only be
					// returned before the helper's first mutation
					if !direct {
						own := true
						for _, v := range resolveAll(ret.Results[ei]) {
							cv, _, isCall := extractOf(v)
							if !isNilConst(v) && !(isCall && ssa.Instruction(cv) == ssa.Instruction(c)) {
								own = false
							}
						}
						if own {
							return false
						}
					}
					return mayBeError(ret.Results[ei], commit.Pkg, 0)
				},
			})
			if ins != nil {
				res.bad(rule, construct, p.pos(ins.Pos()), "Commit can return an error after it has applied some of the staged operations to the store: the caller treats the failed batch as not written (and reports the revision as failed) while part of it - say the object record without its index record - is visible to every reader")
			} else {
				res.ok(rule, construct, p.pos(c.Pos()), "every return reachable from the mutation reports success")
			}
		}
	}
	judge(commit, 0)
	if n == 0 {
		res.und(rule, funcName(commit)+": store mutations", p.pos(commit.Pos()), "no Set / Remove on the skip list found in Commit or the functions it calls")
	}
}

// ---------- C05-R20: the creation of a watch is acknowledged before anything of that watch can be sent ----------

func checkCreatedAckFirst(p *Prog, res *Result, rule string) {
	start := p.methodOrNil("pkg/server/etcd", "watcher", "Start")
	if start == nil {
		res.und(rule, "etcd watcher: Start", "-", "not found")
		return
	}
	// the acknowledgement: a Send on the stream whose response has Created set
	var acks []ssa.Instruction
	for _, c := range callsIn(start) {
		cc := c.Common()
		if !cc.IsInvoke() || cc.Method.Name() != "Send" || len(cc.Args) != 1 {
			continue
		}
		al, ok := strip(cc.Args[0]).(*ssa.Alloc)
		if !ok {
			// the response is built by a function of the package
			if hc, isCall := strip(cc.Args[0]).(*ssa.Call); isCall {
				if h := hc.Common().StaticCallee(); h != nil && h.Blocks != nil && h.Pkg == start.Pkg && setsCreated(h) {
					acks = append(acks, c)
				}
			}
			continue
		}
		for _, ref := range *al.Referrers() {
			fa, ok := ref.(*ssa.FieldAddr)
			if !ok {
				continue
			}
			st := al.Type().(*types.Pointer).Elem().Underlying().(*types.Struct)
			if st.Field(fa.Field).Name() != "Created" {
				continue
			}
			for _, r2 := range *fa.Referrers() {
				if s, ok := r2.(*ssa.Store); ok {
					if cst, ok := s.Val.(*ssa.Const); ok && cst.Value != nil && cst.Value.Kind() == constant.Bool && constant.BoolVal(cst.Value) {
						acks = append(acks, c)
					}
				}
			}
		}
	}
	if len(acks) == 0 {
		res.und(rule, funcName(start)+": Created acknowledgement", p.pos(start.Pos()), "no Send of a response with Created: true found")
		return
	}
	n := 0
	for _, b := range start.Blocks {
		for _, ins := range b.Instrs {
			g, ok := ins.(*ssa.Go)
			if !ok {
				continue
			}
			n++
			name := "function value"
			if sc := g.Common().StaticCallee(); sc != nil {
				name = funcName(sc)
			}
			construct := fmt.Sprintf("%s: goroutine #%d (%s) starts after the acknowledgement", funcName(start), n, name)
			dominated := false
			for _, a := range acks {
				if instrDominates(a, g) {
					dominated = true
				}
			}
			if dominated {
				res.ok(rule, construct, p.pos(g.Pos()), "the Created response has been sent on every path to the go statement")
			} else {
				res.bad(rule, construct, p.pos(g.Pos()), "the goroutine that sends the events (or the cancellation) of the watch is started on a path on which the Created response has not been sent yet: the client can receive an event for a watch id it has not been told about, and drops it")
			}
		}
	}
	if n == 0 {
		res.und(rule, funcName(start)+": go statements", p.pos(start.Pos()), "none found")
	}
}

// ---------- C04-R12: one report per allocated revision ----------

func checkSinkAtMostOnce(p *Prog, r *Roles, res *Result, rule string) {
	n := 0
	for _, f := range p.AllFuncs {
		if !isRepoFn(f) || f.Synthetic != "" || unwrapSynthetic(f) == r.Sink {
			continue
		}
		var sinks []ssa.CallInstruction
		for _, c := range callsIn(f) {
			if _, _, _, ok := r.sinkCallArgs(c); ok {
				sinks = append(sinks, c)
			}
		}
		for i, c := range sinks {
			n++
			rev, _, _, _ := r.sinkCallArgs(c)
			construct := fmt.Sprintf("%s: sink call #%d is the only report of its revision", funcName(f), i+1)
			mine := map[ssa.Value]bool{}
			for _, v := range resolveAll(rev) {
				mine[v] = true
			}
			pa := posOf(c)
			again, _ := searchFrom(pa.b, pa.i+1, searchOpts{
				bad: func(ins ssa.Instruction) bool {
					c2, ok := ins.(ssa.CallInstruction)
					if !ok || c2 == c {
						return false
					}
					rev2, _, _, ok := r.sinkCallArgs(c2)
					if !ok {
						return false
					}
					for _, v := range resolveAll(rev2) {
						if _, isC := v.(*ssa.Const); !isC && mine[v] {
							return true
						}
					}
					return false
				},
				stop: func(ins ssa.Instruction) bool { return ins == ssa.Instruction(c) },
			})
			if again != nil {
				res.bad(rule, construct, p.pos(again.Pos()), "a path from this report leads to a second report of the same allocated revision: the sequencer consumes one event per revision, the second one stays in the slot and is taken for the event of the revision that maps to the slot next")
			} else {
				res.ok(rule, construct, p.pos(c.Pos()), "no second report of the same revision is reachable")
			}
		}
	}
	if n == 0 {
		res.und(rule, "sink calls", "-", "none found")
	}
}

// ---------- C16-R12: the write paths look at the latest state of the key ----------

func checkWritePathsReadLatest(p *Prog, r *Roles, res *Result, rule string) {
	get := p.methodOrNil("pkg/backend", "backend", "get")
	if get == nil {
		res.und(rule, "backend.get", "-", "not found")
		return
	}
	// the revision parameter: the one of unsigned integer type
	ri := -1
	for i, pr := range get.Params {
		if b, ok := pr.Type().Underlying().(*types.Basic); ok && b.Kind() == types.Uint64 {
			ri = i
		}
	}
	if ri < 0 {
		res.und(rule, "backend.get", p.pos(get.Pos()), "no revision parameter")
		return
	}
	readers := map[*ssa.Function]bool{}
	for _, m := range []*types.Func{r.BGet, r.BList, r.BCount, r.BListByStream} {
		if f := p.implIn(m, "pkg/backend"); f != nil {
			readers[f] = true
		}
	}
	n := 0
	for _, f := range p.AllFuncs {
		if !isRepoFn(f) || f.Synthetic != "" || readers[f] || (f.Parent() != nil && readers[f.Parent()]) {
			continue
		}
		k := 0
		for _, c := range callsIn(f) {
			if c.Common().StaticCallee() != get {
				continue
			}
			k++
			n++
			construct := fmt.Sprintf("%s: read #%d before the write is of the latest state", funcName(f), k)
			if isZeroConst(strip(c.Common().Args[ri])) {
				res.ok(rule, construct, p.pos(c.Pos()), "revision 0 (latest)")
			} else {
				res.bad(rule, construct, p.pos(c.Pos()), "a write path reads the key at a caller-supplied revision instead of its latest state: what it reports as the current or previous value (and the revision it then compares against) is that of a historical version")
			}
		}
	}
	if n == 0 {
		res.und(rule, "calls of backend.get outside the read handlers", "-", "none found")
	}
}

// ---------- C01-R13: a handler does not rewrite the verdict of the backend ----------

func checkHandlersKeepVerdict(p *Prog, r *Roles, res *Result, rule string) {
	writes := map[*types.Func]bool{r.BCreate: true, r.BUpdate: true, r.BDelete: true}
	n := 0
	for _, f := range p.AllFuncs {
		if !isRepoFn(f) || !strings.HasPrefix(f.Pkg.Pkg.Path(), modPath+"/pkg/server") || f.Synthetic != "" {
			continue
		}
		k := 0
		for _, c := range callsIn(f) {
			cc, ok := c.(*ssa.Call)
			if !ok || !c.Common().IsInvoke() {
				continue
			}
			if !writes[c.Common().Method] {
				// the shim's own backend interface: a write method that answers with a verdict
				m := c.Common().Method
				if m.Pkg() == nil || !strings.HasPrefix(m.Pkg().Path(), modPath) || !(m.Name() == "Create" || m.Name() == "Update" || m.Name() == "Delete") {
					continue
				}
				rs := m.Type().(*types.Signature).Results()
				if rs.Len() != 2 || !hasField(rs.At(0).Type(), "Succeeded") {
					continue
				}
			}
			k++
			n++
			construct := fmt.Sprintf("%s: verdict of backend write #%d (%s) is not rewritten", funcName(f), k, c.Common().Method.Name())
			bad := ""
			for _, b := range f.Blocks {
				for _, ins := range b.Instrs {
					st, ok := ins.(*ssa.Store)
					if !ok {
						continue
					}
					fa, ok := st.Addr.(*ssa.FieldAddr)
					if !ok {
						continue
					}
					pt, ok := fa.X.Type().Underlying().(*types.Pointer)
					if !ok {
						continue
					}
					stt, ok := pt.Elem().Underlying().(*types.Struct)
					if !ok || stt.Field(fa.Field).Name() != "Succeeded" {
						continue
					}
					for _, v := range resolveAll(fa.X) {
						if ex, ok := v.(*ssa.Extract); ok && ex.Index == 0 && ex.Tuple == ssa.Value(cc) {
							bad = p.pos(st.Pos())
						}
					}
				}
			}
			if bad != "" {
				res.bad(rule, construct, bad, "the handler overwrites the Succeeded field of the response the backend returned: whether the condition held was decided by the compare in the storage batch, and a handler that replaces the verdict reports success for a write that was refused (or the reverse)")
			} else {
				res.ok(rule, construct, p.pos(c.Pos()), "no store into the Succeeded field of the returned response")
			}
		}
	}
	if n == 0 {
		res.und(rule, "backend write calls in pkg/server", "-", "none found")
	}
}

// ---------- C20-R14: no lock is held across a wait loop ----------

func checkNoLockAcrossWaitLoop(p *Prog, res *Result, rule string) {
	n := 0
	for _, f := range p.AllFuncs {
		if !isRepoFn(f) || f.Synthetic != "" {
			continue
		}
		calls := mutexCallsIn(p, f)
		k := 0
		for _, l := range calls {
			if l.deferred || (l.kind != "Lock" && l.kind != "RLock") {
				continue
			}
			k++
			n++
			construct := fmt.Sprintf("%s: %s #%d of %s is not held across a wait loop", funcName(f), l.kind, k, l.mutex.Name())
			pa := posOf(l.ins)
			wait, _ := searchFrom(pa.b, pa.i+1, searchOpts{
				stop: func(i ssa.Instruction) bool {
					for _, u := range calls {
						if u.ins == i && !u.deferred && u.mutex == l.mutex && u.obj == l.obj && (u.kind == "Unlock" || u.kind == "RUnlock") {
							return true
						}
					}
					return false
				},
				bad: func(i ssa.Instruction) bool {
					if loopOf(i.Block()) == nil {
						return false
					}
					switch x := i.(type) {
					case *ssa.Select:
						return x.Blocking
					case *ssa.UnOp:
						if x.Op != token.ARROW {
							return false
						}
						// a receive from a timer channel is a bounded pause
						if c, ok := x.X.(*ssa.Call); ok {
							if sc := c.Common().StaticCallee(); sc != nil && sc.Pkg != nil && sc.Pkg.Pkg.Path() == "time" {
								return false
							}
						}
						return true
					}
					return false
				},
			})
			if wait != nil {
				res.bad(rule, construct, p.pos(wait.Pos()), "the lock is still held where the function waits on a channel inside a loop: the wait lasts as long as the stream it serves, and for that long every writer of the lock (a reset, a close) and, behind a waiting writer, every reader is blocked")
			} else {
				res.ok(rule, construct, p.pos(l.ins.Pos()), "released before any wait inside a loop")
			}
		}
	}
	if n == 0 {
		res.und(rule, "lock acquisitions", "-", "none found")
	}
}

func hasField(t types.Type, name string) bool {
	if pt, ok := t.Underlying().(*types.Pointer); ok {
		t = pt.Elem()
	}
	st, ok := t.Underlying().(*types.Struct)
	if !ok {
		return false
	}
	for i := 0; i < st.NumFields(); i++ {
		if st.Field(i).Name() == name {
			return true
		}
	}
	return false
}

// ---------- C17-R12: the failed-delete marker of a scan worker is not forgotten during the scan ----------

func checkFailedDeleteMarkerKept(p *Prog, res *Result, rule string) {
	wt := p.namedType("pkg/backend/scanner", "worker")
	if wt == nil {
		res.und(rule, "scanner worker", "-", "type not found")
		return
	}
	n := 0
	for _, f := range p.AllFuncs {
		if !isRepoFn(f) || !strings.HasSuffix(f.Pkg.Pkg.Path(), "/pkg/backend/scanner") {
			continue
		}
		k := 0
		for _, b := range f.Blocks {
			for _, ins := range b.Instrs {
				st, ok := ins.(*ssa.Store)
				if !ok {
					continue
				}
				fa, ok := st.Addr.(*ssa.FieldAddr)
				if !ok {
					continue
				}
				pt, ok := fa.X.Type().Underlying().(*types.Pointer)
				if !ok || !types.Identical(pt.Elem(), wt) {
					continue
				}
				fld := fieldOf(fa)
				sl, ok := fld.Type().Underlying().(*types.Slice)
				if !ok || !types.Identical(sl.Elem(), types.Typ[types.Byte]) {
					continue
				}
				k++
				n++
				construct := fmt.Sprintf("%s: store #%d into worker.%s", funcName(f), k, fld.Name())
				cleared := false
				for _, v := range resolveAll(st.Val) {
					if isNilConst(v) {
						cleared = true
					}
				}
				if cleared && loopOf(b) != nil {
					res.bad(rule, construct, p.pos(st.Pos()), "the worker forgets, inside its scan loop, the key whose delete failed: the versions of that key are then deleted although its index record could not be, and what remains of the key is an index record that points at nothing")
				} else {
					res.ok(rule, construct, p.pos(st.Pos()), "records a key (or is outside the scan loop)")
				}
			}
		}
	}
	if n == 0 {
		res.und(rule, "stores into the worker's key fields", "-", "none found")
	}
}

// ---------- C02-R8: Commit raises the allocator on every path ----------

func checkCommitRaisesAllocator(p *Prog, r *Roles, res *Result, rule string) {
	n := 0
	for _, deal := range p.implsOf(r.TSODeal) {
		var dealt *types.Var
		for _, c := range callsIn(deal) {
			if nm, ok := isAtomicCall(c); ok && nm == "AddUint64" {
				if fa, ok := c.Common().Args[0].(*ssa.FieldAddr); ok {
					dealt = fieldOf(fa)
				}
			}
		}
		if dealt == nil {
			continue
		}
		for _, commit := range p.implsOf(r.TSOCommit) {
			if commit.Blocks == nil || !types.Identical(commit.Signature.Recv().Type(), deal.Signature.Recv().Type()) {
				continue
			}
			n++
			construct := funcName(commit) + ": every path looks at the allocator"
			ret, _ := searchFrom(commit.Blocks[0], 0, searchOpts{
				stop: func(i ssa.Instruction) bool {
					c, ok := i.(ssa.CallInstruction)
					if !ok {
						return false
					}
					// an atomic operation on the allocator, or a helper that is handed its address
					for _, a := range c.Common().Args {
						if fa, ok := a.(*ssa.FieldAddr); ok && fieldOf(fa) == dealt {
							return true
						}
					}
					return false
				},
				bad: func(i ssa.Instruction) bool { _, ok := i.(*ssa.Return); return ok },
			})
			if ret != nil {
				res.bad(rule, construct, p.pos(ret.Pos()), "a path through Commit returns without comparing the allocator with the committed revision: when the value arrives through a path that did not allocate it (a follower's sync, the start as leader) the allocator stays below a revision that is in use and hands it out again")
			} else {
				res.ok(rule, construct, p.pos(commit.Pos()), "every return is preceded by an atomic operation on the allocator")
			}
		}
	}
	if n == 0 {
		res.und(rule, "TSO Commit", "-", "not found")
	}
}

// ---------- C04-R13: a wake-up that is sent without blocking is not lost ----------

func chanField(v ssa.Value) *types.Var {
	if u, ok := v.(*ssa.UnOp); ok && u.Op == token.MUL {
		if fa, ok := u.X.(*ssa.FieldAddr); ok {
			return fieldOf(fa)
		}
	}
	return nil
}

func checkWakeupsNotLost(p *Prog, res *Result, rule string) {
	unbuffered := map[*types.Var]bool{}
	made := map[*types.Var]bool{}
	plainRecv := map[*types.Var]string{}
	type nbSend struct {
		f   *ssa.Function
		sel *ssa.Select
		fld *types.Var
	}
	var sends []nbSend
	for _, f := range p.AllFuncs {
		if !isRepoFn(f) {
			continue
		}
		for _, b := range f.Blocks {
			for _, ins := range b.Instrs {
				switch x := ins.(type) {
				case *ssa.Store:
					fa, ok := x.Addr.(*ssa.FieldAddr)
					if !ok {
						continue
					}
					for _, v := range resolveAll(x.Val) {
						if mk, ok := v.(*ssa.MakeChan); ok {
							made[fieldOf(fa)] = true
							if isZeroConst(strip(mk.Size)) {
								unbuffered[fieldOf(fa)] = true
							}
						}
					}
				case *ssa.UnOp:
					if x.Op == token.ARROW {
						if fld := chanField(x.X); fld != nil {
							plainRecv[fld] = p.pos(x.Pos())
						}
					}
				case *ssa.Select:
					if x.Blocking {
						continue
					}
					for _, st := range x.States {
						if st.Dir == types.SendOnly {
							if fld := chanField(st.Chan); fld != nil {
								sends = append(sends, nbSend{f, x, fld})
							}
						}
					}
				}
			}
		}
	}
	for i, s := range sends {
		construct := fmt.Sprintf("%s: non-blocking send #%d on field %s", funcName(s.f), i+1, s.fld.Name())
		if where, ok := plainRecv[s.fld]; ok && made[s.fld] && unbuffered[s.fld] {
			res.bad(rule, construct, p.pos(s.sel.Pos()), "the wake-up is sent without blocking on an unbuffered channel while the receiver ("+where+") waits with a plain receive: a send that arrives between the receiver's look at the state and its receive finds nobody waiting and is dropped, and the receiver sleeps on an event that is already there until some later write wakes it")
		} else {
			res.ok(rule, construct, p.pos(s.sel.Pos()), "the channel is buffered, or nobody waits on it with a plain receive")
		}
	}
	if len(sends) == 0 {
		res.ok(rule, "non-blocking sends on channel fields", "-", "none in the repository: every wake-up is a blocking send, a close or a condition variable")
	}
}

// ---------- C05-R21: the live subscription continues exactly behind what was replayed ----------

func checkResumeBehindReplay(p *Prog, r *Roles, res *Result, rule string) {
	n := 0
	for _, w := range p.implsOf(r.BWatch) {
		if !isRepoFn(w) || !strings.HasSuffix(w.Pkg.Pkg.Path(), "/pkg/backend") {
			continue
		}
		// the replay: a call (not go) of a function of the package that is handed a slice of events
		var replays []ssa.Instruction
		for _, c := range callsIn(w) {
			if _, isGo := c.(*ssa.Go); isGo {
				continue
			}
			sc := c.Common().StaticCallee()
			if sc == nil || sc.Pkg != w.Pkg || sc.Signature.Results().Len() != 0 {
				continue
			}
			for _, a := range c.Common().Args {
				if sl, ok := a.Type().Underlying().(*types.Slice); ok {
					if pt, ok := sl.Elem().(*types.Pointer); ok {
						if nt, ok := pt.Elem().(*types.Named); ok && nt.Obj().Name() == "Event" {
							replays = append(replays, c)
						}
					}
				}
			}
		}
		reach := func(from ssa.Instruction, to *ssa.BasicBlock) bool {
			seen := map[*ssa.BasicBlock]bool{}
			var walk func(b *ssa.BasicBlock) bool
			walk = func(b *ssa.BasicBlock) bool {
				if b == to {
					return true
				}
				if seen[b] {
					return false
				}
				seen[b] = true
				for _, s := range b.Succs {
					if walk(s) {
						return true
					}
				}
				return false
			}
			return walk(from.Block())
		}
		// where the live subscription starts: a go statement with a revision argument, or a call of a function literal
		// or helper of the package that hands one of its parameters to such a go statement
		goParam := func(h *ssa.Function) int {
			if h == nil || h.Blocks == nil {
				return -1
			}
			for _, hb := range h.Blocks {
				for _, hi := range hb.Instrs {
					g, ok := hi.(*ssa.Go)
					if !ok || len(g.Common().Args) == 0 {
						continue
					}
					last := g.Common().Args[len(g.Common().Args)-1]
					if bt, ok := last.Type().Underlying().(*types.Basic); !ok || bt.Kind() != types.Uint64 {
						continue
					}
					if pr, ok := resolve(last).(*ssa.Parameter); ok {
						for i, q := range h.Params {
							if q == pr {
								return i
							}
						}
					}
				}
			}
			return -1
		}
		type startSite struct {
			ins ssa.Instruction
			x   ssa.Value
		}
		var sites []startSite
		for _, b := range w.Blocks {
			for _, ins := range b.Instrs {
				c, ok := ins.(ssa.CallInstruction)
				if !ok {
					continue
				}
				if g, ok := ins.(*ssa.Go); ok {
					args := g.Common().Args
					if len(args) > 0 {
						sites = append(sites, startSite{ins, args[len(args)-1]})
					}
					continue
				}
				if _, isDefer := ins.(*ssa.Defer); isDefer {
					continue
				}
				var callees []*ssa.Function
				if sc := c.Common().StaticCallee(); sc != nil {
					callees = []*ssa.Function{sc}
				} else if !c.Common().IsInvoke() {
					callees = p.funcValues(c.Common().Value, 0)
				}
				for _, h := range callees {
					if h.Pkg != w.Pkg && h.Parent() == nil {
						continue
					}
					if i := goParam(h); i >= 0 {
						args := c.Common().Args
						off := len(h.Params) - len(args) // receiver is part of Args for static method calls: equal lengths
						if i-off >= 0 && i-off < len(args) {
							sites = append(sites, startSite{ins, args[i-off]})
						}
					}
				}
			}
		}
		k := 0
		for _, site := range sites {
			{
				ins, b, x := site.ins, site.ins.Block(), site.x
				g := ins

				if bt, ok := x.Type().Underlying().(*types.Basic); !ok || bt.Kind() != types.Uint64 {
					continue
				}
				k++
				n++
				construct := fmt.Sprintf("%s: start revision of live subscription #%d", funcName(w), k)
				type vcase struct {
					v    ssa.Value
					pred *ssa.BasicBlock
				}
				var cases []vcase
				if ph, ok := x.(*ssa.Phi); ok && ph.Block() == b {
					for i, e := range ph.Edges {
						cases = append(cases, vcase{e, b.Preds[i]})
					}
				} else {
					cases = []vcase{{x, b}}
				}
				bad := ""
				for _, cs := range cases {
					v := resolve(cs.v)
					_, isParam := v.(*ssa.Parameter)
					isNext := false
					if bo, ok := v.(*ssa.BinOp); ok && bo.Op == token.ADD {
						if c, ok := constInt(bo.Y); ok && c == 1 {
							isNext = true
						}
					}
					replayedAlways, replayedMaybe := false, false
					for _, rp := range replays {
						if rp.Block() == cs.pred || rp.Block().Dominates(cs.pred) {
							replayedAlways = true
						}
						if reach(rp, cs.pred) {
							replayedMaybe = true
						}
					}
					switch {
					case isParam && replayedMaybe:
						bad = "the subscription starts at the requested revision on a path on which the cached events from that revision on have already been replayed: every replayed event that is still in the hub's channel is delivered a second time"
					case isNext && !replayedAlways:
						bad = "the subscription starts behind the newest cached event on a path on which nothing was replayed: when the requested revision lies beyond the cache it starts before it (events older than asked for), otherwise the events between are lost"
					}
				}
				if bad != "" {
					res.bad(rule, construct, p.pos(g.Pos()), bad)
				} else {
					res.ok(rule, construct, p.pos(g.Pos()), "the requested revision where nothing was replayed, newest replayed + 1 where the replay ran")
				}
			}
		}
	}
	if n == 0 {
		res.und(rule, "Backend.Watch: go statements with a start revision", "-", "none found")
	}
}

// ---------- C06-R8: a requested read revision is replaced only when it is 0 ----------

func checkRevisionDefaultOnlyForZero(p *Prog, r *Roles, res *Result, rule string) {
	n := 0
	for _, m := range []*types.Func{r.BList, r.BListByStream, r.BCount, r.BGet} {
		f := p.implIn(m, "pkg/backend")
		if f == nil {
			continue
		}
		k := 0
		for _, b := range f.Blocks {
			for _, ins := range b.Instrs {
				ph, ok := ins.(*ssa.Phi)
				if !ok {
					continue
				}
				if bt, ok := ph.Type().Underlying().(*types.Basic); !ok || bt.Kind() != types.Uint64 {
					continue
				}
				var curEdges []int
				var other ssa.Value
				for i, e := range ph.Edges {
					if c, ok := resolve(e).(*ssa.Call); ok && p.isCallToMethod(c, r.TSOGetRevision) {
						curEdges = append(curEdges, i)
					} else {
						other = e
					}
				}
				if len(curEdges) == 0 || other == nil || !requestDerived(other) {
					continue
				}
				k++
				n++
				construct := fmt.Sprintf("%s: read revision default #%d", funcName(f), k)
				good := true
				for _, i := range curEdges {
					found := false
					for _, ft := range localFacts(b.Preds[i]) {
						if ft.X == nil || ft.Y == nil {
							continue
						}
						x, y := ft.X, ft.Y
						if isZeroConst(x) {
							x, y = y, x
						}
						if isZeroConst(y) && sameVal(x, other) && ((ft.Op == token.EQL && ft.Want) || (ft.Op == token.NEQ && !ft.Want)) {
							found = true
						}
					}
					if !found {
						good = false
					}
				}
				if good {
					res.ok(rule, construct, p.pos(ph.Pos()), "the committed revision stands in only on the edge on which the requested revision is 0")
				} else {
					res.bad(rule, construct, p.pos(ph.Pos()), "the requested revision is replaced by the committed revision on an edge that is not limited to 'requested revision == 0': a read at an explicit revision is answered from another snapshot than the one it names")
				}
			}
		}
	}
	if n == 0 {
		res.und(rule, "read handlers: revision default", "-", "no merge of the requested revision with TSO.GetRevision found")
	}
}

// requestDerived: the value is a parameter, a field of one, or the result of a getter called on one.
func requestDerived(v ssa.Value) bool {
	switch x := resolve(v).(type) {
	case *ssa.Parameter:
		return true
	case *ssa.UnOp:
		if fa, ok := x.X.(*ssa.FieldAddr); ok {
			_, isP := resolve(fa.X).(*ssa.Parameter)
			return isP
		}
	case *ssa.Call:
		if len(x.Call.Args) == 1 {
			_, isP := resolve(x.Call.Args[0]).(*ssa.Parameter)
			return isP
		}
	}
	return false
}

// setsCreated: the function stores the constant true into a field named Created.
func setsCreated(h *ssa.Function) bool {
	for _, b := range h.Blocks {
		for _, ins := range b.Instrs {
			st, ok := ins.(*ssa.Store)
			if !ok {
				continue
			}
			fa, ok := st.Addr.(*ssa.FieldAddr)
			if !ok || fieldOf(fa).Name() != "Created" {
				continue
			}
			if cst, ok := st.Val.(*ssa.Const); ok && cst.Value != nil && cst.Value.Kind() == constant.Bool && constant.BoolVal(cst.Value) {
				return true
			}
		}
	}
	return false
}

// mayBeError: the value is not the nil error on every resolution; the result of a function of the package is looked
// up in that function's returns.
func mayBeError(v ssa.Value, pkg *ssa.Package, d int) bool {
	for _, x := range resolveAll(v) {
		if isNilConst(x) {
			continue
		}
		if d < 3 {
			var call *ssa.Call
			idx := 0
			switch y := x.(type) {
			case *ssa.Call:
				call = y
			case *ssa.Extract:
				if c, ok := y.Tuple.(*ssa.Call); ok {
					call, idx = c, y.Index
				}
			}
			if call != nil {
				if h := call.Common().StaticCallee(); h != nil && h.Blocks != nil && h.Pkg == pkg {
					some := false
					for _, b := range h.Blocks {
						if ret, ok := b.Instrs[len(b.Instrs)-1].(*ssa.Return); ok && idx < len(ret.Results) {
							if mayBeError(ret.Results[idx], pkg, d+1) {
								some = true
							}
						}
					}
					if !some {
						continue
					}
				}
			}
		}
		return true
	}
	return false
}

// ---------- C16-R13: client-supplied range bounds are not encoded with the record encoder ----------

// The record encoding magic+key+split+revision keeps the order of user keys only among keys whose bytes are all
// above the split byte. Stored Kubernetes keys are such keys; a client's range bound need not be (the continuation key
// of a paginated list is lastKey+"\x00"), and a bound built by the record encoder then sorts in front of the records
// of lastKey. A read entry point that hands a request-derived bound to EncodeObjectKey is reported; a repaired tree
// encodes bounds with an encoder of their own (or validates them first), which this rule does not object to.
func checkClientBoundsEncoding(p *Prog, r *Roles, res *Result, rule string) {
	enc := p.ifaceMethod("pkg/backend/coder", "Coder", "EncodeObjectKey")
	n := 0
	for _, m := range []*types.Func{r.BList, r.BCount, r.BGetPartitions, r.BListByStream} {
		f := p.implIn(m, "pkg/backend")
		if f == nil {
			continue
		}
		for _, g := range withAnon(f) {
			for _, c := range callsIn(g) {
				if !p.isCallToMethod(c, enc) {
					continue
				}
				key := argForSigParam(c, 0)
				rev := argForSigParam(c, 1)
				if key == nil || rev == nil || !isZeroConst(strip(rev)) || !requestDerived(key) {
					continue
				}
				name := "bound"
				if ld, ok := resolve(key).(*ssa.UnOp); ok {
					if fa, ok := ld.X.(*ssa.FieldAddr); ok {
						name = fieldOf(fa).Name()
					}
				} else if pr, ok := resolve(key).(*ssa.Parameter); ok {
					name = pr.Name()
				}
				n++
				res.bad(rule, fmt.Sprintf("%s: range bound %s is encoded for the scan", funcName(f), name), p.pos(c.Pos()),
					"a client-supplied range bound is encoded with the record encoder: magic+bound+split sorts by the bytes of the bound against the split byte, so a bound that contains a byte at or below the split byte (the continuation key lastKey+\"\\x00\" of a paginated list) lies in front of the records of lastKey and the range returns lastKey again")
			}
		}
	}
	if n == 0 {
		res.ok(rule, "read entry points: range bounds", "-", "no request-derived bound is handed to the record encoder")
	}
}
