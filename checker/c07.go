package main

import (
	"fmt"
	"go/token"
	"go/types"
	"strings"

	"golang.org/x/tools/go/ssa"
)

func init() { register("C07", checkC07) }

func checkC07(p *Prog, res *Result, tier string) {
	r := p.roles()
	ts := p.tombstone()
	sp := p.ssaPkg("pkg/backend/scanner")
	res.Explanation = "Which versions a compaction deletes is decided by value comparisons inside the scan loop; 'reads at >= R unchanged for all histories and fault positions' is not decided. Decided are guard and discipline facts per deletion site of the scan worker. The worker has three deletion roles, identified by the key operand: previous version (key encoded from the loop-carried previous key/revision), current record (iterator key, value equals the deletion marker) and current index (compare-and-delete on the iterator). R1 reads never delete: every deletion site is control-dependent on the worker's compact flag (the expiry branch on a non-zero timeout revision, which is non-zero only under compact). R2 nothing above R: every site is dominated by the false branch of 'decoded revision > configured revision'; the index site additionally by 'revision == 0', the 9-byte length test and 'revision parsed from the value <= R', and it is the compare-and-delete primitive. R3 a previous version is deleted only on the equal-user-key branch with prevRevision > 0, and within one iteration the deletion marker is never deleted before the version it hides. R4 failure discipline: every engine delete of the worker is preceded by the skipped-key test, and a failed delete reaches the skipped-key update, which records every error that is not a failed condition. R5 the compaction revision is clamped (C09-R2)."
	res.NotDecided = "which versions are removed for a given history; fault positions beyond the order and skip discipline; border configuration from prefix / skipped prefixes; races with concurrent writers beyond compare-and-delete."
	res.Assumptions = []string{"iteration order of the engine: index record first, then versions ascending (C10/C11)"}
	res.rule("C07-R1", "deletion sites run only under the compact flag (expiry: non-zero timeout revision, produced only under compact)", 4)
	res.rule("C07-R2", "deletion sites are guarded by 'revision <= R'; the index site by revision==0, length 9, parsed revision <= R, and uses compare-and-delete", 3)
	res.rule("C07-R3", "previous version only when superseded; marker never deleted before the version it hides", 2)
	res.rule("C07-R4", "skip test before each engine delete; failures reach the skipped-key update; non-CAS errors set the skipped key", 5)
	res.rule("C07-R5", "compaction revision clamp (C09-R2)", 1)
	res.rule("C07-R6", "every adapter's compare-and-delete compares the stored value / version before deleting (C11-R1)", 6)

	compactF := p.structField("pkg/backend/scanner", "workerConfig", "compact")
	revF := p.structField("pkg/backend/scanner", "workerConfig", "revision")
	timeoutF := p.structField("pkg/backend/scanner", "workerConfig", "timeoutRevision")

	// the scan loop: the scanner function that invokes Iter.Next and Coder.Decode
	var run *ssa.Function
	for _, f := range p.AllFuncs {
		if f.Pkg != sp || f.Synthetic != "" {
			continue
		}
		next, dec := false, false
		for _, c := range callsIn(f) {
			if c.Common().IsInvoke() && c.Common().Method == r.ItNext {
				next = true
			}
			if r.is(c, r.Decode) && c.Common().IsInvoke() {
				dec = true
			}
		}
		if next && dec {
			run = f
		}
	}
	if run == nil {
		brokenf("scan loop of the worker not found")
	}
	var decode *ssa.Call
	var valCall *ssa.Call
	for _, c := range callsIn(run) {
		cc, ok := c.(*ssa.Call)
		if !ok {
			continue
		}
		if r.is(c, r.Decode) {
			decode = cc
		}
	}
	curRev := extractsOf(decode)[1]
	curKey := extractsOf(decode)[0]
	_ = valCall

	isFieldLoad := func(v ssa.Value, f *types.Var) bool {
		ld, ok := resolve(v).(*ssa.UnOp)
		if !ok {
			return false
		}
		fa, ok := ld.X.(*ssa.FieldAddr)
		return ok && fieldOf(fa) == f
	}

	type site struct {
		call ssa.CallInstruction
		prim string // Del / DelCurrent
		role string
		fn   *ssa.Function
	}
	var sites []site
	for _, c := range callsIn(run) {
		sc := c.Common().StaticCallee()
		if sc == nil || sc.Pkg != sp {
			continue
		}
		prim := reachesStorageDelete(p, r, sc, 1)
		if prim == "" {
			continue
		}
		// skip the expiry helper (it contains its own sites, governed by C17) but remember it for R1
		hasTTL := false
		for _, c2 := range callsIn(sc) {
			if c2.Common().IsInvoke() && c2.Common().Method == r.KVSupportTTL {
				hasTTL = true
			}
		}
		if hasTTL {
			sites = append(sites, site{c, prim, "expiry", run})
			continue
		}
		role := "?"
		if prim == "DelCurrent" {
			role = "current index"
		} else {
			// key operand: first []byte argument after the receiver
			var key ssa.Value
			for _, a := range c.Common().Args[1:] {
				if _, ok := a.Type().Underlying().(*types.Slice); ok {
					key = a
					break
				}
			}
			kp := p.keyProvenance(key)
			switch kp.Kind {
			case keyVersion:
				role = "previous version"
			case keyIter:
				role = "current record"
			}
		}
		sites = append(sites, site{c, prim, role, run})
	}
	roleCount := map[string]int{}
	for _, s := range sites {
		roleCount[s.role]++
	}
	res.Stats["deletion_sites"] = roleCount

	var prevSite, markerSite ssa.Instruction
	for _, s := range sites {
		b := s.call.Block()
		facts := dominatingFacts(b)
		pos := p.pos(s.call.Pos())
		// ---- R1 ----
		construct := fmt.Sprintf("%s: %s site runs only when compacting", funcName(run), s.role)
		underCompact := false
		for _, cf := range facts {
			if isFieldLoad(cf.Raw, compactF) && cf.Want {
				underCompact = true
			}
		}
		if s.role == "expiry" {
			// guarded inside the helper by timeoutRevision != 0 (C17-R5 checks SupportTTL); the timeout revision is
			// non-zero only under compact: every store into workerConfig.timeoutRevision is 0 or assigned under compact
			helper := s.call.Common().StaticCallee()
			okGuard := true
			for _, c2 := range callsIn(helper) {
				sc2 := c2.Common().StaticCallee()
				if sc2 == nil || reachesStorageDelete(p, r, sc2, 1) == "" {
					continue
				}
				g := false
				for _, cf := range dominatingFacts(c2.Block()) {
					if cf.X != nil && isFieldLoad(cf.X, timeoutF) && isZeroConst(cf.Y) && ((cf.Op == token.EQL && !cf.Want) || (cf.Op == token.NEQ && cf.Want)) {
						g = true
					}
				}
				if !g {
					okGuard = false
				}
			}
			producedUnderCompact := true
			for _, st := range p.fields().stores[timeoutF] {
				for _, v := range allCellValues(p, st.Val) {
					if isZeroConst(v) {
						continue
					}
					if _, isParam := v.(*ssa.Parameter); isParam {
						continue
					}
					// a non-zero value: its defining instruction must be under `compact`
					ins := valueInstr(v)
					if ex, ok := v.(*ssa.Extract); ok {
						ins = ex.Tuple.(ssa.Instruction)
					}
					if ins == nil {
						producedUnderCompact = false
						continue
					}
					g := false
					for _, cf := range dominatingFacts(ins.Block()) {
						// the scan's own `compact` parameter (possibly spilled to a cell)
						if prm, ok := p.resolveDeep(cf.Raw).(*ssa.Parameter); ok && cf.Want {
							if bt, ok := prm.Type().Underlying().(*types.Basic); ok && bt.Kind() == types.Bool {
								g = true
							}
						}
					}
					if !g {
						producedUnderCompact = false
					}
				}
			}
			switch {
			case !okGuard:
				res.bad("C07-R1", construct, pos, "an expiry delete is not guarded by a non-zero timeout revision: a plain range read could delete records")
			case !producedUnderCompact:
				res.bad("C07-R1", construct, pos, "the timeout revision can be non-zero for a scan that is not a compaction: range reads would expire records")
			default:
				res.ok("C07-R1", construct, pos, "guarded by timeoutRevision != 0, which is assigned non-zero only under the scan's compact flag")
			}
			continue
		}
		if underCompact {
			res.ok("C07-R1", construct, pos, "dominated by workerConfig.compact == true")
		} else {
			res.bad("C07-R1", construct, pos, "a deletion site of the scan worker is reachable when the worker is not compacting: a range read deletes data")
		}
		// ---- R2 ----
		construct = fmt.Sprintf("%s: %s site deletes nothing above the compaction revision", funcName(run), s.role)
		notAbove := false
		for _, cf := range facts {
			if cf.X != nil && resolve(cf.X) == curRev && isFieldLoad(cf.Y, revF) && ((cf.Op == token.GTR && !cf.Want) || (cf.Op == token.LEQ && cf.Want)) {
				notAbove = true
			}
		}
		if !notAbove {
			res.bad("C07-R2", construct, pos, "the site is not dominated by the false branch of 'decoded revision > compaction revision': versions newer than R can be deleted and reads at >= R change")
		} else if s.role != "current index" {
			res.ok("C07-R2", construct, pos, "dominated by decoded revision <= R")
		} else {
			isIdx, len9, parsedOK := false, false, false
			for _, cf := range facts {
				if cf.X == nil {
					continue
				}
				if resolve(cf.X) == curRev && isZeroConst(cf.Y) && ((cf.Op == token.EQL && cf.Want) || (cf.Op == token.NEQ && !cf.Want)) {
					isIdx = true
				}
				if k, ok := constInt(cf.Y); ok && k == 9 && strings.HasPrefix(pureKey(cf.X), "len(") && ((cf.Op == token.EQL && cf.Want) || (cf.Op == token.NEQ && !cf.Want)) {
					len9 = true
				}
				if _, ok := decodedUint64(cf.X); ok && isFieldLoad(cf.Y, revF) && ((cf.Op == token.GTR && !cf.Want) || (cf.Op == token.LEQ && cf.Want)) {
					parsedOK = true
				}
			}
			switch {
			case s.prim != "DelCurrent":
				res.bad("C07-R2", construct, pos, "the index record is removed by an unconditional delete instead of compare-and-delete: a key re-created since the snapshot loses its index")
			case !isIdx || !len9:
				res.bad("C07-R2", construct, pos, "the index site is not restricted to index records (revision == 0) carrying the deletion flag (9 bytes): live keys lose their index")
			case !parsedOK:
				res.bad("C07-R2", construct, pos, "the index of a deleted key is removed without comparing the revision stored in it with the compaction revision: a delete newer than R (or an unresolved unknown-outcome delete) is compacted away")
			default:
				res.ok("C07-R2", construct, pos, "revision == 0, 9-byte value, parsed revision <= R, compare-and-delete")
			}
		}
		// ---- R3 ----
		if s.role == "previous version" {
			prevSite = s.call.(ssa.Instruction)
			construct = fmt.Sprintf("%s: previous version deleted only when superseded", funcName(run))
			sameKey, prevPos := false, false
			for _, cf := range facts {
				if cf.Call != nil && cf.Want {
					if sc := cf.Call.Common().StaticCallee(); sc != nil && sc.Pkg != nil && sc.Pkg.Pkg.Path() == "bytes" && sc.Name() == "Equal" {
						if resolve(cf.Call.Common().Args[0]) == curKey || resolve(cf.Call.Common().Args[1]) == curKey {
							sameKey = true
						}
					}
				}
				if cf.X != nil && isZeroConst(cf.Y) && ((cf.Op == token.GTR && cf.Want) || (cf.Op == token.NEQ && cf.Want)) {
					if _, isPhi := resolve(cf.X).(*ssa.Phi); isPhi {
						prevPos = true
					}
				}
			}
			if sameKey && prevPos {
				res.ok("C07-R3", construct, pos, "on the branch current user key == previous user key and prevRevision > 0: a newer version <= R of the same key exists")
			} else {
				res.bad("C07-R3", construct, pos, "the previous version is deleted without having established that the current record is a newer version (<= R) of the same key: the newest version <= R of a key can be removed")
			}
		}
		if s.role == "current record" {
			markerSite = s.call.(ssa.Instruction)
			construct = fmt.Sprintf("%s: current record deleted only if it is a deletion marker", funcName(run))
			isMarker := false
			for _, cf := range facts {
				if cf.Call != nil && cf.Want {
					if sc := cf.Call.Common().StaticCallee(); sc != nil && sc.Pkg != nil && sc.Pkg.Pkg.Path() == "bytes" && sc.Name() == "Equal" {
						if ts.is(cf.Call.Common().Args[0]) || ts.is(cf.Call.Common().Args[1]) {
							isMarker = true
						}
					}
				}
			}
			if isMarker {
				res.ok("C07-R3", construct, pos, "dominated by value == deletion marker")
			} else {
				res.bad("C07-R3", construct, pos, "the current (newest <= R) record of a key is deleted although it is not a deletion marker: a live key vanishes")
			}
		}
	}
	if prevSite != nil && markerSite != nil {
		construct := funcName(run) + ": within an iteration the marker is not deleted before the version it hides"
		if reaches(markerSite, prevSite) && !crossesBackEdgeOnly(markerSite, prevSite) {
			res.bad("C07-R3", construct, p.pos(markerSite.Pos()), "the deletion marker of a key is removed before the older version it hides: if the next delete fails or the compactor dies in between, the deleted key reappears at every revision")
		} else {
			res.ok("C07-R3", construct, p.pos(markerSite.Pos()), "the previous-version delete precedes the marker delete in the loop body")
		}
	}

	// ---- R4 ----
	var updater *ssa.Function // the function that sets the skipped key
	skipF := (*types.Var)(nil)
	for _, f := range p.AllFuncs {
		if f.Pkg != sp || f.Signature.Recv() == nil {
			continue
		}
		for _, b := range f.Blocks {
			for _, ins := range b.Instrs {
				if st, ok := ins.(*ssa.Store); ok {
					if fa, ok := st.Addr.(*ssa.FieldAddr); ok && resolve(fa.X) == ssa.Value(f.Params[0]) {
						if _, isParam := st.Val.(*ssa.Parameter); isParam && isNamed(f.Signature.Recv().Type(), modPath+"/pkg/backend/scanner", "worker") {
							updater, skipF = f, fieldOf(fa)
						}
					}
				}
			}
		}
	}
	var skipTest *ssa.Function // function returning bool that compares the skipped key with its argument
	for _, f := range p.AllFuncs {
		if f.Pkg != sp || f.Signature.Results().Len() != 1 || skipF == nil {
			continue
		}
		if b, ok := f.Signature.Results().At(0).Type().Underlying().(*types.Basic); !ok || b.Kind() != types.Bool {
			continue
		}
		for _, blk := range f.Blocks {
			for _, ins := range blk.Instrs {
				if fa, ok := ins.(*ssa.FieldAddr); ok && fieldOf(fa) == skipF {
					skipTest = f
				}
			}
		}
	}
	if updater == nil || skipTest == nil {
		res.und("C07-R4", "skip discipline", "-", "skipped-key update / test functions not found")
	} else {
		casFailed := p.global("pkg/storage", "ErrCASFailed")
		// helpers issuing engine deletes
		for _, f := range p.AllFuncs {
			if f.Pkg != sp {
				continue
			}
			for _, c := range callsIn(f) {
				if !c.Common().IsInvoke() || (c.Common().Method != r.KVDel && c.Common().Method != r.KVDelCurrent) {
					continue
				}
				cc := c.(*ssa.Call)
				construct := fmt.Sprintf("%s: engine %s is preceded by the skipped-key test", funcName(f), c.Common().Method.Name())
				guarded := false
				for _, cf := range dominatingFacts(c.Block()) {
					if cf.Call != nil && cf.Call.Common().StaticCallee() == skipTest && !cf.Want {
						guarded = true
					}
				}
				if guarded {
					res.ok("C07-R4", construct, p.pos(c.Pos()), "dominated by isSkipped == false")
				} else {
					res.bad("C07-R4", construct, p.pos(c.Pos()), "records of a key whose earlier delete failed in this pass are still deleted: e.g. the index survived but the versions go, so the key's history is cut in an inconsistent way")
				}
				// failure path reaches the updater with the same error
				construct = fmt.Sprintf("%s: a failed %s reaches the skipped-key update", funcName(f), c.Common().Method.Name())
				found := false
				for _, b := range f.Blocks {
					if ifOf(b) == nil {
						continue
					}
					for s := 0; s < 2; s++ {
						cf := edgeFact(edge{b, s})
						if cf.X == nil || resolve(cf.X) != ssa.Value(cc) || !isNilConst(cf.Y) || !((cf.Op == token.NEQ && cf.Want) || (cf.Op == token.EQL && !cf.Want)) {
							continue
						}
						found = true
						var upd ssa.Instruction
						for _, c2 := range callsIn(f) {
							if c2.Common().StaticCallee() == updater {
								upd = c2.(ssa.Instruction)
							}
						}
						ins, _ := searchFrom(b.Succs[s], 0, searchOpts{
							stop: func(i ssa.Instruction) bool { return i == upd },
							bad:  func(i ssa.Instruction) bool { _, ok := i.(*ssa.Return); return ok },
						})
						if upd == nil || ins != nil {
							res.bad("C07-R4", construct, p.pos(c.Pos()), "a failed delete returns without recording the key as skipped: later records of the same key are still deleted in this pass")
						} else {
							res.ok("C07-R4", construct, p.pos(upd.Pos()), "every path from err != nil passes the skipped-key update")
						}
					}
				}
				if !found {
					res.bad("C07-R4", construct, p.pos(c.Pos()), "the result of the engine delete is not tested")
				}
			}
		}
		// the updater records every error that is not a failed condition
		construct := funcName(updater) + ": every error other than a failed condition sets the skipped key"
		good := false
		for _, st := range p.fields().stores[skipF] {
			if st.Parent() != updater {
				continue
			}
			for _, cf := range dominatingFacts(st.Block()) {
				if _, tgt, ok := errorsIsCall(cf.Raw); ok && !cf.Want && globalLoad(tgt) == casFailed {
					good = true
				}
			}
			// and nothing else restricts it
			n := 0
			for _, cf := range dominatingFacts(st.Block()) {
				_ = cf
				n++
			}
			if n != 1 {
				good = false
			}
		}
		if good {
			res.ok("C07-R4", construct, p.pos(updater.Pos()), "the store is dominated only by !errors.Is(err, ErrCASFailed)")
		} else {
			res.bad("C07-R4", construct, p.pos(updater.Pos()), "the skipped-key update ignores some delete errors: after such a failure the rest of the key's records are still deleted")
		}
	}

	// ---- R5 ----
	checkCompactionClamp(p, r, res, "C07-R5")

	// ---- R6: the compare-and-delete primitive of every adapter really compares (C11-R1) ----
	sub := newResult("C11")
	checkC11(p, sub, tier)
	for _, o := range sub.Obls {
		if o.Rule == "C11-R1" && strings.Contains(o.Construct, "DelCurrent") {
			res.add("C07-R6", o.Rule+" "+o.Construct, o.Status, o.Pos, o.Detail)
		}
	}
}
