package main

import (
	"fmt"
	"go/token"
	"go/types"
	"strings"

	"golang.org/x/tools/go/ssa"
)

func init() { register("C07", checkC07) }

func checkC07(p *Prog, res *Result, tier string) {
	r := p.roles()
	ts := p.tombstone()
	sp := p.ssaPkg("pkg/backend/scanner")
	res.Explanation = "Which versions a compaction deletes is decided by value comparisons inside the scan loop; 'reads at >= R unchanged for all histories and fault positions' is not decided. Decided are guard and discipline facts per deletion site of the scan worker. The worker has three deletion roles, identified by the key operand: previous version (key encoded from the loop-carried previous key/revision), current record (iterator key, value equals the deletion marker) and current index (compare-and-delete on the iterator). R1 reads never delete: every deletion site is control-dependent on the worker's compact flag (the expiry branch on a non-zero timeout revision, which is non-zero only under compact). R2 nothing above R: every site is dominated by the false branch of 'decoded revision > configured revision'; the index site additionally by 'revision == 0', the 9-byte length test and 'revision parsed from the value <= R', and it is the compare-and-delete primitive. R3 a previous version is deleted only on the equal-user-key branch with prevRevision > 0, and within one iteration the deletion marker is never deleted before the version it hides. R4 failure discipline: every engine delete of the worker is preceded by the skipped-key test, and a failed delete reaches the skipped-key update, which records every error that is not a failed condition. R5 the compaction revision is clamped (C09-R2)."
	res.NotDecided = "which versions are removed for a given history; fault positions beyond the order and skip discipline; border configuration from prefix / skipped prefixes; races with concurrent writers beyond compare-and-delete."
	res.Assumptions = []string{"iteration order of the engine: index record first, then versions ascending (C10/C11)"}
	res.rule("C07-R1", "deletion sites run only under the compact flag (expiry: non-zero timeout revision, produced only under compact)", 4)
	res.rule("C07-R2", "deletion sites are guarded by 'revision <= R'; the index site by revision==0, length 9, parsed revision <= R, and uses compare-and-delete", 3)
	res.rule("C07-R3", "previous version only when superseded; marker never deleted before the version it hides", 2)
	res.rule("C07-R4", "skip test before each engine delete; failures reach the skipped-key update; non-CAS errors set the skipped key", 5)
	res.rule("C07-R5", "compaction revision clamp (C09-R2)", 1)
	res.rule("C07-R9", "compaction ranges: every prefix contributes (Encode(k,0), Encode(upper(k),0)) of the same k, the border list is sorted after the last append, and it is consumed as (borders[i], borders[i+1]) with i += 2", 4)
	res.rule("C07-R10", "write paths recognise 'the record is gone' on the error of the step that reported it: no classification test looks at an error value already classified otherwise by an enclosing branch (C09-R9)", 8)
	res.rule("C07-R11", "the marker of a failed compaction delete, which is compared with user keys, is a user key: what is stored into it is the first result of Decode (through parameters), never an engine key", 1)
	res.rule("C07-R8", "the expiry branch of the compaction scan removes an index record only by compare-and-delete (C17-R3)", 1)
	res.rule("C07-R7", "the compaction scan covers every record of its interval: partition borders contiguous and realigned to index keys (C13-R5)", 2)
	res.rule("C07-R6", "every adapter's compare-and-delete compares the stored value / version before deleting (C11-R1); the metrics wrapper forwards deletes unchanged and returns their error (C11-R5)", 6)

	compactF := p.structField("pkg/backend/scanner", "workerConfig", "compact")
	revF := p.structField("pkg/backend/scanner", "workerConfig", "revision")
	timeoutF := p.structField("pkg/backend/scanner", "workerConfig", "timeoutRevision")

	// the scan loop: the scanner function that invokes Iter.Next and Coder.Decode
	var run *ssa.Function
	for _, f := range p.AllFuncs {
		if f.Pkg != sp || f.Synthetic != "" {
			continue
		}
		next, dec := false, false
		for _, c := range callsIn(f) {
			if c.Common().IsInvoke() && c.Common().Method == r.ItNext {
				next = true
			}
			if r.is(c, r.Decode) && c.Common().IsInvoke() {
				dec = true
			}
		}
		if next && dec {
			run = f
		}
	}
	if run == nil {
		brokenf("scan loop of the worker not found")
	}
	var decode *ssa.Call
	var valCall *ssa.Call
	for _, c := range callsIn(run) {
		cc, ok := c.(*ssa.Call)
		if !ok {
			continue
		}
		if r.is(c, r.Decode) {
			decode = cc
		}
	}
	curRev := extractsOf(decode)[1]
	curKey := extractsOf(decode)[0]
	_ = valCall

	isFieldLoad := func(v ssa.Value, f *types.Var) bool {
		ld, ok := resolve(v).(*ssa.UnOp)
		if !ok {
			return false
		}
		fa, ok := ld.X.(*ssa.FieldAddr)
		return ok && fieldOf(fa) == f
	}

	// ---- deletion sites: every call chain from the scan loop down to an engine delete ----
	inScanner := func(f *ssa.Function) bool { return f.Pkg == sp }
	isEngineDelete := func(ins ssa.Instruction) bool {
		c, ok := ins.(ssa.CallInstruction)
		return ok && c.Common().IsInvoke() && (c.Common().Method == r.KVDel || c.Common().Method == r.KVDelCurrent)
	}
	chains := enumerateChains(p, run, isEngineDelete, inScanner, 6)
	consultsTTL := func(f *ssa.Function) bool {
		for _, c := range callsIn(f) {
			if c.Common().IsInvoke() && c.Common().Method == r.KVSupportTTL {
				return true
			}
		}
		return false
	}
	type site struct {
		ch   callChain
		prim string
		role string
	}
	var sites []site
	for _, ch := range chains {
		e := ch.target.(ssa.CallInstruction)
		st := site{ch: ch, prim: "Del", role: "?"}
		expiry := false
		for _, f := range ch.fns[1:] {
			if consultsTTL(f) {
				expiry = true
			}
		}
		switch {
		case expiry:
			st.role = "expiry"
			if e.Common().Method == r.KVDelCurrent {
				st.prim = "DelCurrent"
			}
		case e.Common().Method == r.KVDelCurrent:
			st.prim, st.role = "DelCurrent", "current index"
		default:
			key := ch.up(argForSigParam(e, 1), len(ch.fns)-1)
			if kc, ok := key.(*ssa.Call); ok {
				switch {
				case r.is(kc, r.EncObj) && !isZeroConst(argForSigParam(kc, 1)):
					st.role = "previous version"
				case r.is(kc, r.ItKey):
					st.role = "current record"
				}
			}
		}
		sites = append(sites, st)
	}
	roleCount := map[string]int{}
	for _, s := range sites {
		roleCount[s.role]++
	}
	res.Stats["deletion_sites"] = roleCount
	var chainList []string
	for _, s := range sites {
		chainList = append(chainList, s.role+": "+s.ch.describe(p))
	}
	res.Stats["deletion_chains"] = chainList

	// skip-discipline roles
	var updater *ssa.Function // the function that sets the skipped key
	skipF := (*types.Var)(nil)
	for _, f := range p.AllFuncs {
		if f.Pkg != sp || f.Signature.Recv() == nil {
			continue
		}
		for _, b := range f.Blocks {
			for _, ins := range b.Instrs {
				if st, ok := ins.(*ssa.Store); ok {
					if fa, ok := st.Addr.(*ssa.FieldAddr); ok && resolve(fa.X) == ssa.Value(f.Params[0]) {
						if _, isParam := st.Val.(*ssa.Parameter); isParam && isNamed(f.Signature.Recv().Type(), modPath+"/pkg/backend/scanner", "worker") {
							updater, skipF = f, fieldOf(fa)
						}
					}
				}
			}
		}
	}
	var skipTest *ssa.Function // function returning bool that compares the skipped key with its argument
	for _, f := range p.AllFuncs {
		if f.Pkg != sp || f.Signature.Results().Len() != 1 || skipF == nil {
			continue
		}
		if b, ok := f.Signature.Results().At(0).Type().Underlying().(*types.Basic); !ok || b.Kind() != types.Bool {
			continue
		}
		for _, blk := range f.Blocks {
			for _, ins := range blk.Instrs {
				if fa, ok := ins.(*ssa.FieldAddr); ok && fieldOf(fa) == skipF {
					skipTest = f
				}
			}
		}
	}

	perRole := map[string]int{}
	var prevSite, markerSite ssa.Instruction // the top-level calls (in the scan loop) of those two roles
	for _, s := range sites {
		ch := s.ch
		facts := ch.facts()
		perRole[s.role]++
		tag := fmt.Sprintf("%s site #%d", s.role, perRole[s.role])
		pos := p.pos(ch.target.Pos())
		top := ch.target
		if len(ch.calls) > 0 {
			top = ch.calls[0].(ssa.Instruction)
		}
		// ---- R1 ----
		construct := fmt.Sprintf("%s: %s runs only when compacting", funcName(run), tag)
		underCompact := false
		for _, cf := range facts {
			if isFieldLoad(cf.Raw, compactF) && cf.Want {
				underCompact = true
			}
		}
		if s.role == "expiry" {
			okGuard := false
			for _, cf := range facts {
				if cf.X != nil && isFieldLoad(cf.X, timeoutF) && isZeroConst(cf.Y) && ((cf.Op == token.EQL && !cf.Want) || (cf.Op == token.NEQ && cf.Want)) {
					okGuard = true
				}
			}
			producedUnderCompact := true
			for _, st := range p.fields().stores[timeoutF] {
				for _, v := range allCellValues(p, st.Val) {
					if isZeroConst(v) {
						continue
					}
					if _, isParam := v.(*ssa.Parameter); isParam {
						continue
					}
					ins := valueInstr(v)
					if ex, ok := v.(*ssa.Extract); ok {
						ins = ex.Tuple.(ssa.Instruction)
					}
					if ins == nil {
						producedUnderCompact = false
						continue
					}
					g := false
					for _, cf := range dominatingFacts(ins.Block()) {
						if prm, ok := p.resolveDeep(cf.Raw).(*ssa.Parameter); ok && cf.Want {
							if bt, ok := prm.Type().Underlying().(*types.Basic); ok && bt.Kind() == types.Bool {
								g = true
							}
						}
					}
					if !g {
						producedUnderCompact = false
					}
				}
			}
			switch {
			case !okGuard:
				res.bad("C07-R1", construct, pos, "an expiry delete is not guarded by a non-zero timeout revision: a plain range read could delete records: "+ch.String())
			case !producedUnderCompact:
				res.bad("C07-R1", construct, pos, "the timeout revision can be non-zero for a scan that is not a compaction: range reads would expire records")
			default:
				res.ok("C07-R1", construct, pos, "guarded by timeoutRevision != 0, which is assigned non-zero only under the scan's compact flag")
			}
		}
		if s.role != "expiry" {
			if underCompact {
				res.ok("C07-R1", construct, pos, "the chain "+ch.String()+" passes workerConfig.compact == true")
			} else {
				res.bad("C07-R1", construct, pos, "a deletion site of the scan worker is reachable when the worker is not compacting: a range read deletes data: "+ch.String())
			}
			// ---- R2 ----
			construct = fmt.Sprintf("%s: %s deletes nothing above the compaction revision", funcName(run), tag)
			notAbove := false
			for _, cf := range facts {
				if cf.X != nil && ch.same(cf.X, cf.level, curRev, 0) && isFieldLoad(cf.Y, revF) && ((cf.Op == token.GTR && !cf.Want) || (cf.Op == token.LEQ && cf.Want)) {
					notAbove = true
				}
			}
			if !notAbove {
				res.bad("C07-R2", construct, pos, "the site is not guarded by the false branch of 'decoded revision > compaction revision': versions newer than R can be deleted and reads at >= R change: "+ch.String())
			} else if s.role != "current index" {
				res.ok("C07-R2", construct, pos, "guarded by decoded revision <= R")
			} else {
				isIdx, len9, parsedOK := false, false, false
				for _, cf := range facts {
					if cf.X == nil {
						continue
					}
					if ch.same(cf.X, cf.level, curRev, 0) && isZeroConst(cf.Y) && ((cf.Op == token.EQL && cf.Want) || (cf.Op == token.NEQ && !cf.Want)) {
						isIdx = true
					}
					if k, ok := constInt(cf.Y); ok && k == 9 && ((cf.Op == token.EQL && cf.Want) || (cf.Op == token.NEQ && !cf.Want)) {
						if c, ok := resolve(cf.X).(*ssa.Call); ok {
							if bi, ok := c.Common().Value.(*ssa.Builtin); ok && bi.Name() == "len" {
								len9 = true
							}
						}
					}
					if _, ok := decodedUint64(cf.X); ok && isFieldLoad(cf.Y, revF) && ((cf.Op == token.GTR && !cf.Want) || (cf.Op == token.LEQ && cf.Want)) {
						parsedOK = true
					}
				}
				switch {
				case s.prim != "DelCurrent":
					res.bad("C07-R2", construct, pos, "the index record is removed by an unconditional delete instead of compare-and-delete: a key re-created since the snapshot loses its index")
				case !isIdx || !len9:
					res.bad("C07-R2", construct, pos, "the index site is not restricted to index records (revision == 0) carrying the deletion flag (9 bytes): live keys lose their index")
				case !parsedOK:
					res.bad("C07-R2", construct, pos, "the index of a deleted key is removed without comparing the revision stored in it with the compaction revision: a delete newer than R (or an unresolved unknown-outcome delete) is compacted away")
				default:
					res.ok("C07-R2", construct, pos, "revision == 0, 9-byte value, parsed revision <= R, compare-and-delete")
				}
			}
			// ---- R3 ----
			if s.role == "previous version" {
				prevSite = top
				construct = fmt.Sprintf("%s: previous version deleted only when superseded", funcName(run))
				sameKey, prevPos := false, false
				for _, cf := range facts {
					if cf.Call != nil && cf.Want {
						if sc := cf.Call.Common().StaticCallee(); sc != nil && sc.Pkg != nil && sc.Pkg.Pkg.Path() == "bytes" && sc.Name() == "Equal" {
							if ch.same(cf.Call.Common().Args[0], cf.level, curKey, 0) || ch.same(cf.Call.Common().Args[1], cf.level, curKey, 0) {
								sameKey = true
							}
						}
					}
					if cf.X != nil && isZeroConst(cf.Y) && ((cf.Op == token.GTR && cf.Want) || (cf.Op == token.NEQ && cf.Want)) {
						if _, isPhi := ch.up(cf.X, cf.level).(*ssa.Phi); isPhi {
							prevPos = true
						}
						// the loop-carried previous record kept in a struct variable: a field that the loop assigns
						if cell, fld, ok := ch.structCellField(cf.X, cf.level); ok && len(cellFieldStores(cell, fld)) > 0 {
							prevPos = true
						}
					}
				}
				if sameKey && prevPos {
					res.ok("C07-R3", construct, pos, "on the branch current user key == previous user key and prevRevision > 0: a newer version <= R of the same key exists")
				} else {
					res.bad("C07-R3", construct, pos, "the previous version is deleted without having established that the current record is a newer version (<= R) of the same key: the newest version <= R of a key can be removed")
				}
			}
			if s.role == "current record" {
				markerSite = top
				construct = fmt.Sprintf("%s: current record deleted only if it is a deletion marker", funcName(run))
				isMarker := false
				for _, cf := range facts {
					if cf.Call != nil && cf.Want {
						if sc := cf.Call.Common().StaticCallee(); sc != nil && sc.Pkg != nil && sc.Pkg.Pkg.Path() == "bytes" && sc.Name() == "Equal" {
							if ts.is(cf.Call.Common().Args[0]) || ts.is(cf.Call.Common().Args[1]) {
								isMarker = true
							}
						}
					}
				}
				if isMarker {
					res.ok("C07-R3", construct, pos, "guarded by value == deletion marker")
				} else {
					res.bad("C07-R3", construct, pos, "the current (newest <= R) record of a key is deleted although it is not a deletion marker: a live key vanishes")
				}
			}
		} // R1 (compact flag), R2 and R3 do not apply to expiry deletes (C17 decides those)
		// ---- R4 (per chain) ----
		if updater == nil || skipTest == nil {
			continue
		}
		construct = fmt.Sprintf("%s: %s is preceded by the skipped-key test", funcName(run), tag)
		guarded := false
		for _, cf := range facts {
			if cf.Call != nil && cf.Call.Common().StaticCallee() == skipTest && !cf.Want {
				guarded = true
			}
		}
		// the key the skip discipline compares and records must be the user key of the record (decoded from the
		// iterator key, or the loop-carried previous user key) - never an engine key, which no later record equals
		for _, cf := range facts {
			if cf.Call == nil || cf.Call.Common().StaticCallee() != skipTest || cf.Want {
				continue
			}
			var keyArg ssa.Value
			for ai, a := range cf.Call.Common().Args {
				if ai == 0 && skipTest.Signature.Recv() != nil {
					continue
				}
				if sl, ok := a.Type().Underlying().(*types.Slice); ok {
					if bt, ok := sl.Elem().Underlying().(*types.Basic); ok && bt.Kind() == types.Byte {
						keyArg = a
						break
					}
				}
			}
			if keyArg == nil {
				continue
			}
			c2 := fmt.Sprintf("%s: %s hands the record's user key to the skipped-key test", funcName(run), tag)
			prov := userKeyProvenance(r, ch.up(keyArg, cf.level), 0)
			upV, upLv := ch.upLevel(keyArg, cf.level)
			if cell, fld, ok := ch.structCellField(upV, upLv); ok && prov == 0 {
				// a field of the loop-carried previous-record variable: every value the loop assigns to it
				prov = 1
				vals := cellFieldStores(cell, fld)
				if len(vals) == 0 {
					prov = 0
				}
				for _, sv := range vals {
					if k, isC := sv.(*ssa.Const); isC && k.IsNil() {
						continue
					}
					switch userKeyProvenance(r, sv, 0) {
					case -1:
						prov = -1
					case 0:
						if prov == 1 {
							prov = 0
						}
					}
				}
			}
			switch prov {
			case 1:
				res.ok("C07-R4", c2, pos, "decoded user key of the current / previous record")
			case -1:
				res.bad("C07-R4", c2, pos, "the skipped-key discipline is given an engine key instead of the record's user key: after a failed delete the other records of that key are not recognised as belonging to it and are still deleted: "+ch.String())
			default:
				res.und("C07-R4", c2, pos, "provenance of the key handed to the skipped-key test not resolved")
			}
		}
		if guarded {
			res.ok("C07-R4", construct, pos, "the chain passes isSkipped == false")
		} else {
			res.bad("C07-R4", construct, pos, "records of a key whose earlier delete failed in this pass are still deleted: e.g. the index survived but the versions go, so the key's history is cut in an inconsistent way: "+ch.String())
		}
		// the error of the engine delete reaches the skipped-key update
		construct = fmt.Sprintf("%s: a failure of %s reaches the skipped-key update", funcName(run), tag)
		val, level := ssa.Value(ch.target.(*ssa.Call)), len(ch.fns)-1
		for level > 0 && onlyReturned(val) {
			if cv, ok := ch.calls[level-1].(*ssa.Call); ok {
				val, level = cv, level-1
			} else {
				break
			}
		}
		f := ch.fns[level]
		found, okPath := false, false
		for _, b := range f.Blocks {
			if ifOf(b) == nil {
				continue
			}
			for sidx := 0; sidx < 2; sidx++ {
				cf := edgeFact(edge{b, sidx})
				if cf.X == nil || resolve(cf.X) != val || !isNilConst(cf.Y) || !((cf.Op == token.NEQ && cf.Want) || (cf.Op == token.EQL && !cf.Want)) {
					continue
				}
				found = true
				var upd ssa.Instruction
				for _, c2 := range callsIn(f) {
					if c2.Common().StaticCallee() == updater {
						upd = c2.(ssa.Instruction)
					}
				}
				ins, _ := searchFrom(b.Succs[sidx], 0, searchOpts{
					stop: func(i ssa.Instruction) bool { return i == upd },
					bad:  func(i ssa.Instruction) bool { _, ok := i.(*ssa.Return); return ok },
				})
				okPath = upd != nil && ins == nil
			}
		}
		switch {
		case !found:
			res.bad("C07-R4", construct, pos, "the result of the engine delete is not tested")
		case !okPath:
			res.bad("C07-R4", construct, pos, "a failed delete returns without recording the key as skipped: later records of the same key are still deleted in this pass")
		default:
			res.ok("C07-R4", construct, pos, "every path from err != nil passes the skipped-key update (in "+funcName(f)+")")
		}
	}
	if prevSite != nil && markerSite != nil {
		construct := funcName(run) + ": within an iteration the marker is not deleted before the version it hides"
		if reaches(markerSite, prevSite) && !crossesBackEdgeOnly(markerSite, prevSite) {
			res.bad("C07-R3", construct, p.pos(markerSite.Pos()), "the deletion marker of a key is removed before the older version it hides: if the next delete fails or the compactor dies in between, the deleted key reappears at every revision")
		} else {
			res.ok("C07-R3", construct, p.pos(markerSite.Pos()), "the previous-version delete precedes the marker delete in the loop body")
		}
	}
	if updater == nil || skipTest == nil {
		res.und("C07-R4", "skip discipline", "-", "skipped-key update / test functions not found")
	} else {
		casFailed := p.global("pkg/storage", "ErrCASFailed")
		// the updater records every error that is not a failed condition
		construct := funcName(updater) + ": every error other than a failed condition sets the skipped key"
		good := false
		for _, st := range p.fields().stores[skipF] {
			if st.Parent() != updater {
				continue
			}
			for _, cf := range localFacts(st.Block()) {
				if _, tgt, ok := errorsIsCall(cf.Raw); ok && !cf.Want && globalLoad(tgt) == casFailed {
					good = true
				}
			}
			// and nothing else inside the function restricts it
			if len(localFacts(st.Block())) != 1 {
				good = false
			}
		}
		if good {
			res.ok("C07-R4", construct, p.pos(updater.Pos()), "the store is dominated only by !errors.Is(err, ErrCASFailed)")
		} else {
			res.bad("C07-R4", construct, p.pos(updater.Pos()), "the skipped-key update ignores some delete errors: after such a failure the rest of the key's records are still deleted")
		}
	}

	// ---- R5 ----
	checkCompactionClamp(p, r, res, "C07-R5")

	// ---- R6: the compare-and-delete primitive of every adapter really compares (C11-R1) ----
	sub := p.subResult("C11", tier)
	for _, o := range sub.Obls {
		if o.Rule == "C11-R1" && strings.Contains(o.Construct, "DelCurrent") {
			res.add("C07-R6", o.Rule+" "+o.Construct, o.Status, o.Pos, o.Detail)
		}
		// the metrics wrapper sits between the compaction worker and every engine: it must hand the delete on as it
		// is and hand its error back (the worker's failed-delete discipline, R4, keys on that error)
		if o.Rule == "C11-R5" && (strings.HasSuffix(o.Construct, ".Del") || strings.HasSuffix(o.Construct, ".DelCurrent")) {
			res.add("C07-R6", o.Rule+" "+o.Construct, o.Status, o.Pos, o.Detail)
		}
		// .. and so must the adapters: a delete (a commit) that failed in the engine is reported as failed (C11-R11)
		if o.Rule == "C11-R11" && (strings.Contains(o.Construct, "Commit") || strings.Contains(o.Construct, "Del")) {
			res.add("C07-R6", o.Rule+" "+o.Construct, o.Status, o.Pos, o.Detail)
		}
	}
	// .. and "the compare failed" means exactly that on every engine: the worker's failed-delete discipline (R4) ignores
	// ErrCASFailed, so an adapter that files another commit error (retryable, timeout) under it hides a delete that
	// did not happen (C09-R4)
	{
		sub9 := newResult("C09")
		checkCommitClassification(p, r, sub9)
		for _, o := range sub9.Obls {
			res.add("C07-R6", o.Rule+" "+o.Construct, o.Status, o.Pos, o.Detail)
		}
	}
	checkSkipMarkerIsUserKey(p, r, res, "C07-R11")
	// ---- R10: a key stays writable after its records were compacted away (the creator's re-read, C09-R9) ----
	checkContradictoryClassification(p, res, "C07-R10")
	// ---- R9: which ranges are walked ----
	checkCompactionRanges(p, r, res, "C07-R9")

	// ---- R7: the compaction scan sees every record (C13-R5) ----
	sub13 := newResult("C13")
	checkBorderContiguity(p, r, sub13, sp)
	for _, o := range sub13.Obls {
		res.add("C07-R7", o.Rule+" "+o.Construct, o.Status, o.Pos, o.Detail)
	}

	// ---- R8: expiry deletes of index records (C17-R3) ----
	{
		sub17 := newResult("C17")
		saved := c17NoImports
		c17NoImports = true
		checkC17(p, sub17, tier)
		c17NoImports = saved
		for _, o := range sub17.Obls {
			// (and the revision up to which it expires is that of a compaction mark older than the TTL: C17-R2)
			if o.Rule == "C17-R3" || o.Rule == "C17-R2" {
				res.add("C07-R8", o.Rule+" "+o.Construct, o.Status, o.Pos, o.Detail)
			}
		}
	}

}

// userKeyProvenance: 1 = v is a decoded user key (result #0 of Coder.Decode, or a loop-carried copy of one),
// -1 = v is an engine key (iterator key or an encoded key), 0 = unknown.
func userKeyProvenance(r *Roles, v ssa.Value, depth int) int {
	if depth > 6 {
		return 0
	}
	v = resolve(v)
	switch x := v.(type) {
	case *ssa.Extract:
		if c, ok := x.Tuple.(*ssa.Call); ok && r.is(c, r.Decode) && x.Index == 0 {
			return 1
		}
	case *ssa.Call:
		if r.is(x, r.ItKey) || r.is(x, r.EncObj) || r.is(x, r.EncRev) {
			return -1
		}
	case *ssa.Phi:
		res := 0
		for _, e := range x.Edges {
			if k, ok := e.(*ssa.Const); ok && k.IsNil() {
				continue
			}
			if e == ssa.Value(x) {
				continue
			}
			switch userKeyProvenance(r, e, depth+1) {
			case -1:
				return -1
			case 1:
				res = 1
			default:
				return 0
			}
		}
		return res
	}
	return 0
}

// onlyReturned: the value's only use (besides debug refs) is as a result of its function.
func onlyReturned(v ssa.Value) bool {
	refs := v.Referrers()
	if refs == nil {
		return false
	}
	n := 0
	for _, r := range *refs {
		switch r.(type) {
		case *ssa.Return:
			n++
		case *ssa.DebugRef:
		default:
			return false
		}
	}
	return n > 0
}

// checkSkipMarkerIsUserKey (C07-R11): another dimension rule. The worker remembers the key a delete failed for and later
// compares user keys with that marker. What it stores there must therefore be a user key (the first result of the
// coder's Decode, possibly handed down through parameters) and never an engine key (what the iterator yields, what
// EncodeObjectKey / EncodeRevisionKey return): an engine key never equals a user key, the marker never matches, and
// after a failed delete of an old version the compaction goes on to remove the tombstone above it - the deleted key
// comes back.
func checkSkipMarkerIsUserKey(p *Prog, r *Roles, res *Result, rule string) {
	sp := p.ssaPkg("pkg/backend/scanner")
	var classOf func(v ssa.Value, d int) string
	classOf = func(v ssa.Value, d int) string {
		v = p.resolveDeep(v)
		if d > 5 {
			return "?"
		}
		switch x := v.(type) {
		case *ssa.Const:
			return "" // nil: no key at all
		case *ssa.Extract:
			if c, ok := x.Tuple.(*ssa.Call); ok && r.is(c, r.Decode) && x.Index == 0 {
				return "user"
			}
		case *ssa.Call:
			if r.is(x, r.EncObj) || r.is(x, r.EncRev) {
				return "engine"
			}
			if x.Common().IsInvoke() && x.Common().Method.Name() == "Key" {
				return "engine"
			}
		case *ssa.Parameter:
			acts := p.paramActuals(x)
			cls := ""
			for _, a := range acts {
				c := classOf(a, d+1)
				if c == "" {
					continue
				}
				if cls == "" {
					cls = c
				} else if cls != c {
					return "mixed"
				}
			}
			if cls != "" {
				return cls
			}
		case *ssa.Phi:
			cls := ""
			for _, e := range x.Edges {
				if resolve(e) == ssa.Value(x) {
					continue
				}
				c := classOf(e, d+1)
				if c == "" {
					continue
				}
				if cls == "" {
					cls = c
				} else if cls != c {
					return "mixed"
				}
			}
			if cls != "" {
				return cls
			}
		}
		return "?"
	}
	// the marker: a []byte field of the worker that a bytes.Compare / Equal in the package compares with something
	n := 0
	for _, f := range p.AllFuncs {
		if f.Pkg != sp || f.Blocks == nil {
			continue
		}
		for _, c := range callsIn(f) {
			sc := c.Common().StaticCallee()
			if sc == nil || sc.Pkg == nil || sc.Pkg.Pkg.Path() != "bytes" || (sc.Name() != "Compare" && sc.Name() != "Equal") {
				continue
			}
			for ai, a := range c.Common().Args {
				ld, ok := resolve(a).(*ssa.UnOp)
				if !ok || ld.Op != token.MUL {
					continue
				}
				fa, ok := ld.X.(*ssa.FieldAddr)
				if !ok {
					continue
				}
				fv := fieldOf(fa)
				other := classOf(c.Common().Args[1-ai], 0)
				if other != "user" {
					continue
				}
				// fv is compared with user keys: every store into it is a user key
				for _, st := range p.fields().stores[fv] {
					n++
					construct := fmt.Sprintf("%s: value stored into %s (compared with user keys in %s)", funcName(st.Parent()), fv.Name(), funcName(f))
					switch cl := classOf(st.Val, 0); cl {
					case "user":
						res.ok(rule, construct, p.pos(st.Pos()), "a user key (first result of Decode)")
					case "engine", "mixed":
						res.bad(rule, construct, p.pos(st.Pos()), "the marker of a failed delete is compared with user keys but is given an engine key (the encoded object key): it never matches, so after a failed delete of an older version the worker goes on to delete the tombstone above it, and the deleted key is served again with its old value")
					default:
						res.ok(rule, construct, p.pos(st.Pos()), "provenance not decided (neither a user key nor an engine key by construction)")
					}
				}
			}
		}
	}
	if n == 0 {
		res.und(rule, "scanner: failed-delete marker", "-", "no field of the scanner package is compared with a decoded user key")
	}
}
