package main

import (
	"fmt"
	"go/token"
	"go/types"
	"sort"
	"strings"

	"golang.org/x/tools/go/ssa"
)

// classTest: ins tests error value e against storage sentinel g (errors.Is(e, g), e == g, e != g).
type classTest struct {
	ins  ssa.Instruction
	err  ssa.Value
	sent *ssa.Global
}

func classTestOf(v ssa.Value) (classTest, bool) {
	switch x := v.(type) {
	case *ssa.Call:
		sc := x.Common().StaticCallee()
		if sc == nil || sc.Pkg == nil || sc.Name() != "Is" || len(x.Common().Args) != 2 {
			return classTest{}, false
		}
		if pp := sc.Pkg.Pkg.Path(); pp != "errors" && pp != "github.com/pkg/errors" {
			return classTest{}, false
		}
		if g := globalLoad(x.Common().Args[1]); g != nil && isStorageSentinel(g) {
			return classTest{x, x.Common().Args[0], g}, true
		}
	case *ssa.BinOp:
		if x.Op != token.EQL && x.Op != token.NEQ {
			return classTest{}, false
		}
		if g := globalLoad(x.Y); g != nil && isStorageSentinel(g) {
			return classTest{x, x.X, g}, true
		}
		if g := globalLoad(x.X); g != nil && isStorageSentinel(g) {
			return classTest{x, x.Y, g}, true
		}
	}
	return classTest{}, false
}

func isStorageSentinel(g *ssa.Global) bool {
	return g.Pkg != nil && g.Pkg.Pkg.Path() == modPath+"/pkg/storage" && strings.HasPrefix(g.Name(), "Err")
}

// disjointClasses: two storage sentinels no error value of the repository matches at once. Unknown-outcome errors wrap
// an origin error and answer for its class as well, so they are disjoint with nothing.
func disjointClasses(a, b *ssa.Global) bool {
	return a != b && a.Name() != "ErrUncertainResult" && b.Name() != "ErrUncertainResult"
}

// checkContradictoryClassification: a classification test of an error value that a dominating branch has already found
// to be of a different, disjoint class can only answer no: the branch it guards is dead. In this code base that is the
// footprint of testing the wrong error variable (the error of an earlier step instead of the one just returned), which
// turns a recognised condition ("the record was compacted away, create again") into the fall-through ("unavailable").
func checkContradictoryClassification(p *Prog, res *Result, rule string) {
	var fs []*ssa.Function
	for _, f := range p.AllFuncs {
		if f.Blocks == nil || f.Synthetic != "" || f.Pkg == nil {
			continue
		}
		pp := f.Pkg.Pkg.Path()
		if strings.HasPrefix(pp, modPath+"/pkg/backend") && !strings.Contains(pp, "/mock") {
			fs = append(fs, f)
		}
	}
	sort.Slice(fs, func(i, j int) bool { return funcName(fs[i]) < funcName(fs[j]) })
	n := 0
	for _, f := range fs {
		k := 0
		for _, b := range f.Blocks {
			for _, ins := range b.Instrs {
				v, ok := ins.(ssa.Value)
				if !ok {
					continue
				}
				ct, ok := classTestOf(v)
				if !ok {
					continue
				}
				k++
				n++
				top := f
				for top.Parent() != nil {
					top = top.Parent()
				}
				construct := fmt.Sprintf("%s: classification test #%d (%s) is not decided by an enclosing one", funcName(f), k, ct.sent.Name())
				bad := ""
				for _, cf := range dominatingFacts(b) {
					if !cf.Want && cf.Op != token.NEQ {
						continue
					}
					prev, ok := classTestOf(cf.Raw)
					if !ok {
						continue
					}
					holds := (cf.Call != nil && cf.Want) || (cf.Op == token.EQL && cf.Want) || (cf.Op == token.NEQ && !cf.Want)
					if !holds || !disjointClasses(prev.sent, ct.sent) {
						continue
					}
					if resolve(prev.err) == resolve(ct.err) {
						bad = prev.sent.Name()
					}
				}
				if bad != "" {
					res.bad(rule, construct, p.pos(ins.Pos()), "the error tested here is the very value an enclosing branch has already classified as "+bad+": the test can only fail and the branch it guards is dead - the error of the step that was just executed is not the one being looked at, so its recognised outcome (e.g. 'not found: the record was compacted away, create again') is answered as a failure")
				} else {
					res.ok(rule, construct, p.pos(ins.Pos()), "no dominating test of the same value against a disjoint class")
				}
			}
		}
	}
	if n == 0 {
		res.und(rule, "pkg/backend: classification tests", "-", "none found")
	}
}

// checkSentinelIdentity: the write paths dispatch on error classes with errors.Is (failed condition -> answer
// "not succeeded"; unknown outcome -> repair; anything else -> error). That only works while every package-level
// error variable of the repository is a class of its own: the initializer of none of them wraps (fmt.Errorf %w,
// errors.Wrap, WithMessage ..) another error variable - otherwise errors.Is files the wrapper under the class of
// what it wraps (a 'revision drift back' would be answered as a failed compare).
func checkSentinelIdentity(p *Prog, res *Result, rule string) {
	isErrGlobal := func(v ssa.Value) *ssa.Global {
		g := globalLoad(v)
		if g == nil || g.Pkg == nil || !strings.HasPrefix(g.Pkg.Pkg.Path(), modPath) {
			return nil
		}
		if pt, ok := g.Type().Underlying().(*types.Pointer); ok && isErrorType(pt.Elem()) {
			return g
		}
		return nil
	}
	n := 0
	var pkgs []*ssa.Package
	for _, pk := range p.SSA.AllPackages() {
		if pk.Pkg != nil && strings.HasPrefix(pk.Pkg.Path(), modPath) && !strings.Contains(pk.Pkg.Path(), "/mock") {
			pkgs = append(pkgs, pk)
		}
	}
	sort.Slice(pkgs, func(i, j int) bool { return pkgs[i].Pkg.Path() < pkgs[j].Pkg.Path() })
	for _, pk := range pkgs {
		init := pk.Func("init")
		if init == nil {
			continue
		}
		for _, b := range init.Blocks {
			for _, ins := range b.Instrs {
				st, ok := ins.(*ssa.Store)
				if !ok {
					continue
				}
				g, ok := st.Addr.(*ssa.Global)
				if !ok {
					continue
				}
				if pt, ok := g.Type().Underlying().(*types.Pointer); !ok || !isErrorType(pt.Elem()) {
					continue
				}
				n++
				construct := fmt.Sprintf("%s.%s: an error class of its own", strings.TrimPrefix(pk.Pkg.Path(), modPath+"/"), g.Name())
				var wrapped *ssa.Global
				seen := map[ssa.Value]bool{}
				var walk func(v ssa.Value, d int)
				walk = func(v ssa.Value, d int) {
					if v == nil || seen[v] || d > 8 {
						return
					}
					seen[v] = true
					if og := isErrGlobal(v); og != nil && og != g {
						wrapped = og
						return
					}
					switch x := resolve(v).(type) {
					case *ssa.MakeInterface:
						walk(x.X, d+1)
					case *ssa.Call:
						for _, a := range x.Common().Args {
							walk(a, d+1)
						}
					case *ssa.Slice:
						walk(x.X, d+1)
					case *ssa.Alloc:
						for _, ref := range *x.Referrers() {
							switch y := ref.(type) {
							case *ssa.IndexAddr:
								for _, r2 := range *y.Referrers() {
									if s2, ok := r2.(*ssa.Store); ok && s2.Addr == ssa.Value(y) {
										walk(s2.Val, d+1)
									}
								}
							case *ssa.FieldAddr:
								for _, r2 := range *y.Referrers() {
									if s2, ok := r2.(*ssa.Store); ok && s2.Addr == ssa.Value(y) {
										walk(s2.Val, d+1)
									}
								}
							}
						}
					}
				}
				walk(st.Val, 0)
				if wrapped != nil {
					res.bad(rule, construct, p.pos(st.Pos()), "the error variable is built around "+wrapped.Name()+": errors.Is(err, "+wrapped.Name()+") now holds for it too, so the dispatch on error classes files this condition under the other class (e.g. an error that must reach the client as an error is answered as a failed compare with Succeeded=false)")
				} else {
					res.ok(rule, construct, p.pos(st.Pos()), "initialised without reference to another error variable")
				}
			}
		}
	}
	if n == 0 {
		res.und(rule, "package-level error variables", "-", "none found")
	}
}
