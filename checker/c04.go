package main

import (
	"fmt"
	"go/constant"
	"go/token"
	"go/types"
	"sort"
	"strings"

	"golang.org/x/tools/go/ssa"
)

func init() { register("C04", checkC04) }

// ---------- allocation summaries ----------

type allocInfo struct {
	p *Prog
	r *Roles
	// allocRet[f] = result index in which f returns an allocated revision
	allocRet map[*ssa.Function]int
}

type allocSite struct {
	call  ssa.CallInstruction
	v     ssa.Value // the allocated revision value
	errV  ssa.Value // error result of the same call, if any
	prim  bool
	g     *ssa.Function // summarised allocator (nil if primitive)
	label string
}

func errorResultIndex(sig *types.Signature) int {
	for i := 0; i < sig.Results().Len(); i++ {
		if types.Identical(sig.Results().At(i).Type(), types.Universe.Lookup("error").Type()) {
			return i
		}
	}
	return -1
}

func extractsOf(c *ssa.Call) map[int]ssa.Value {
	out := map[int]ssa.Value{}
	if c.Common().Signature().Results().Len() == 1 {
		out[0] = c
		return out
	}
	for _, ref := range *c.Referrers() {
		if e, ok := ref.(*ssa.Extract); ok {
			out[e.Index] = e
		}
	}
	return out
}

// sitesIn lists the allocation sites of f given the current summaries.
func (a *allocInfo) sitesIn(f *ssa.Function) []allocSite {
	var out []allocSite
	cnt := map[string]int{}
	for _, ci := range callsIn(f) {
		c, ok := ci.(*ssa.Call)
		if !ok {
			continue
		}
		var s *allocSite
		if a.r.is(c, a.r.TSODeal) && c.Common().IsInvoke() {
			ex := extractsOf(c)
			s = &allocSite{call: c, v: ex[0], errV: ex[1], prim: true, label: "tso.TSO.Deal"}
		} else if sc := c.Common().StaticCallee(); sc != nil {
			if idx, ok := a.allocRet[sc]; ok {
				ex := extractsOf(c)
				s = &allocSite{call: c, v: ex[idx], g: sc, label: funcName(sc)}
				if ei := errorResultIndex(sc.Signature); ei >= 0 {
					s.errV = ex[ei]
				}
			}
		}
		if s == nil {
			continue
		}
		cnt[s.label]++
		if cnt[s.label] > 1 {
			s.label = fmt.Sprintf("%s #%d", s.label, cnt[s.label])
		}
		out = append(out, *s)
	}
	return out
}

// feasibleReturns returns the Return instructions of g reachable when parameters with constant actuals are folded.
func feasibleReturns(g *ssa.Function, consts map[*ssa.Parameter]constant.Value) []*ssa.Return {
	var rets []*ssa.Return
	type item struct{ b, pred *ssa.BasicBlock }
	seen := map[item]bool{}
	seenRet := map[*ssa.Return]bool{}
	work := []item{{g.Blocks[0], nil}}
	for len(work) > 0 {
		it := work[0]
		work = work[1:]
		if seen[it] {
			continue
		}
		seen[it] = true
		b := it.b
		last := b.Instrs[len(b.Instrs)-1]
		push := func(succs ...*ssa.BasicBlock) {
			for _, s := range succs {
				work = append(work, item{s, b})
			}
		}
		switch t := last.(type) {
		case *ssa.Return:
			if !seenRet[t] {
				seenRet[t] = true
				rets = append(rets, t)
			}
		case *ssa.If:
			cond := t.Cond
			// a short-circuit condition materialised as a phi (a && b as a switch case): the value that arrives over
			// the edge this path came in by
			if phi, ok := cond.(*ssa.Phi); ok && phi.Block() == b && it.pred != nil {
				for i, pr := range b.Preds {
					if pr == it.pred {
						cond = phi.Edges[i]
					}
				}
			}
			if k, ok := cond.(*ssa.Const); ok && k.Value != nil && k.Value.Kind() == constant.Bool {
				if constant.BoolVal(k.Value) {
					push(b.Succs[0])
				} else {
					push(b.Succs[1])
				}
				continue
			}
			if bo, ok := cond.(*ssa.BinOp); ok {
				if val, ok := foldCmp(bo, consts); ok {
					if val {
						push(b.Succs[0])
					} else {
						push(b.Succs[1])
					}
					continue
				}
			}
			push(b.Succs...)
		default:
			push(b.Succs...)
		}
	}
	return rets
}

func foldCmp(bo *ssa.BinOp, consts map[*ssa.Parameter]constant.Value) (bool, bool) {
	val := func(v ssa.Value) (constant.Value, bool) {
		if c, ok := v.(*ssa.Const); ok && c.Value != nil {
			return c.Value, true
		}
		if p, ok := v.(*ssa.Parameter); ok {
			if cv, ok := consts[p]; ok {
				return cv, true
			}
		}
		return nil, false
	}
	x, ok1 := val(bo.X)
	y, ok2 := val(bo.Y)
	if !ok1 || !ok2 {
		return false, false
	}
	switch bo.Op {
	case token.EQL, token.NEQ, token.LSS, token.LEQ, token.GTR, token.GEQ:
		if x.Kind() != y.Kind() || (x.Kind() != constant.Int && x.Kind() != constant.String && x.Kind() != constant.Bool) {
			return false, false
		}
		return constant.Compare(x, bo.Op, y), true
	}
	return false, false
}

// errImpliesNotAllocated: at this call of summarised allocator g, does a non-nil error result imply that no
// revision was allocated? True iff every feasible return of g that may carry an allocated revision returns a nil error.
func (a *allocInfo) errImpliesNotAllocated(s allocSite) bool {
	if s.prim {
		return true // contract of the TSO interface: Deal either allocates or fails
	}
	g := s.g
	idx := a.allocRet[g]
	ei := errorResultIndex(g.Signature)
	if ei < 0 {
		return false
	}
	consts := map[*ssa.Parameter]constant.Value{}
	for i, prm := range g.Params {
		if i < len(s.call.Common().Args) {
			if c, ok := s.call.Common().Args[i].(*ssa.Const); ok && c.Value != nil {
				consts[prm] = c.Value
			}
		}
	}
	for _, ret := range feasibleReturns(g, consts) {
		mayAlloc := !isZeroConst(ret.Results[idx])
		if mayAlloc && !isNilConst(ret.Results[ei]) {
			return false
		}
	}
	return true
}

// carries reports whether result value r is the allocated value v on every path that comes from the site.
func carries(r, v ssa.Value, reach map[*ssa.BasicBlock]bool) bool {
	r = resolve(r)
	if r == v {
		return true
	}
	if ph, ok := r.(*ssa.Phi); ok {
		any := false
		for i, e := range ph.Edges {
			pred := ph.Block().Preds[i]
			if !reach[pred] {
				continue
			}
			if !carries(e, v, reach) {
				return false
			}
			any = true
		}
		return any
	}
	return false
}

func reachableFrom(b *ssa.BasicBlock) map[*ssa.BasicBlock]bool {
	seen := map[*ssa.BasicBlock]bool{}
	var walk func(x *ssa.BasicBlock)
	walk = func(x *ssa.BasicBlock) {
		if seen[x] {
			return
		}
		seen[x] = true
		for _, s := range x.Succs {
			walk(s)
		}
	}
	// the site's own block counts as reachable for phi edges only if it is in a cycle; start from successors
	for _, s := range b.Succs {
		walk(s)
	}
	seen[b] = true
	return seen
}

type siteOutcome struct {
	transferIdx int // >=0: all non-exempt returns carry v at this index
	violations  []string
	viaSink     int
	returns     int
	pos         token.Pos
}

// analyseSite explores all paths from an allocation site.
func (a *allocInfo) analyseSite(f *ssa.Function, s allocSite) siteOutcome {
	out := siteOutcome{transferIdx: -1}
	if s.v == nil {
		out.violations = append(out.violations, "the allocated revision result is discarded at the call")
		return out
	}
	notAllocOnErr := a.errImpliesNotAllocated(s)
	reach := reachableFrom(s.call.Block())
	// the value itself, or a merge (phi) all of whose edges that can come from this site carry it
	isV := func(x ssa.Value) bool { return carries(x, s.v, reach) }
	isErr := func(x ssa.Value) bool { return s.errV != nil && carries(x, s.errV, reach) }
	skip := func(from *ssa.BasicBlock, si int) bool {
		iff := ifOf(from)
		if iff == nil {
			return false
		}
		for _, cf := range expandFact(edgeFact(edge{from, si}), 0) {
			if cf.X == nil {
				continue
			}
			x, y := cf.X, cf.Y
			if isNilConst(x) || isZeroConst(x) {
				x, y = y, x
			}
			// err != nil on this edge and a failed allocator allocates nothing
			if notAllocOnErr && isErr(x) && isNilConst(y) {
				if (cf.Op == token.NEQ && cf.Want) || (cf.Op == token.EQL && !cf.Want) {
					return true
				}
			}
			// rev == 0 on this edge: nothing was allocated (idiom: revision 0 means "none")
			if isV(x) && isZeroConst(y) {
				if (cf.Op == token.EQL && cf.Want) || (cf.Op == token.NEQ && !cf.Want) {
					return true
				}
			}
		}
		return false
	}
	type retInfo struct {
		ret  *ssa.Return
		path []*ssa.BasicBlock
	}
	var rets []retInfo
	// collect all returns reachable without passing a sink call carrying v
	start := posOf(s.call)
	seenRet := map[*ssa.Return]bool{}
	for {
		ins, path := searchFrom(start.b, start.i+1, searchOpts{
			stop: func(ins ssa.Instruction) bool {
				if c, ok := ins.(ssa.CallInstruction); ok {
					if rev, _, _, ok := a.r.sinkCallArgs(c); ok && rev != nil && isV(rev) {
						out.viaSink++
						return true
					}
				}
				if r, ok := ins.(*ssa.Return); ok && seenRet[r] {
					return true
				}
				return false
			},
			bad: func(ins ssa.Instruction) bool {
				r, ok := ins.(*ssa.Return)
				return ok && !seenRet[r]
			},
			skipEdge: skip,
		})
		if ins == nil {
			break
		}
		r := ins.(*ssa.Return)
		seenRet[r] = true
		rets = append(rets, retInfo{r, path})
	}
	out.returns = len(rets)
	if len(rets) == 0 {
		return out
	}
	// every reached return must carry v at one common result index
	common := -1
	for i := range rets[0].ret.Results {
		all := true
		for _, ri := range rets {
			if !carries(ri.ret.Results[i], s.v, reach) {
				all = false
			}
		}
		if all {
			common = i
			break
		}
	}
	if common >= 0 {
		out.transferIdx = common
		return out
	}
	// find the offending returns: those that do not carry v at the index most returns use
	best, bestN := -1, -1
	for i := range rets[0].ret.Results {
		n := 0
		for _, ri := range rets {
			if carries(ri.ret.Results[i], s.v, reach) {
				n++
			}
		}
		if n > bestN {
			best, bestN = i, n
		}
	}
	for _, ri := range rets {
		if best >= 0 && bestN > 0 && carries(ri.ret.Results[best], s.v, reach) {
			continue
		}
		what := "neither reports it to the event sink nor returns it"
		if best >= 0 && bestN > 0 {
			what = fmt.Sprintf("returns %s in result #%d instead of the allocated revision, and does not report it to the event sink", ri.ret.Results[best].String(), best)
		}
		out.violations = append(out.violations, fmt.Sprintf("path %s reaches return at %s which %s",
			blockPath(a.p, ri.path), a.p.pos(ri.ret.Pos()), what))
		out.pos = ri.ret.Pos()
	}
	return out
}

func (a *allocInfo) compute() {
	a.allocRet = map[*ssa.Function]int{}
	for iter := 0; iter < 8; iter++ {
		changed := false
		for _, f := range a.p.AllFuncs {
			if _, done := a.allocRet[f]; done {
				continue
			}
			for _, s := range a.sitesIn(f) {
				o := a.analyseSite(f, s)
				if o.transferIdx >= 0 && len(o.violations) == 0 {
					a.allocRet[f] = o.transferIdx
					changed = true
					break
				}
			}
		}
		if !changed {
			break
		}
	}
}

// ---------- the check ----------

func checkC04(p *Prog, res *Result, tier string) {
	r := p.roles()
	res.Explanation = "Static typestate/path rules on the revision life cycle: R1 every path from a revision allocation (tso.TSO.Deal or a function summarised as returning an allocated revision) reports that revision to the event sink or returns it to a caller that does; R2 the sink stores every non-zero revision into the slot array; R3 the sequencer commits and clears every slot it consumed on every path; R4 a revision is reported only after the function that committed its batch returned, with valid == (err == nil) of that function; R5 only the sequencer, the leader-start callback and the follower sync can advance the committed revision."
	res.NotDecided = "liveness under scheduling (the sequencer spins), the capacity bound of the slot ring, timing of storage calls."
	res.Assumptions = []string{"tso.TSO.Deal either allocates a revision or returns a non-nil error (interface contract)", "go/ssa faithfully represents the control flow of the type-checked source"}

	res.rule("C04-R1", "every path from a revision allocation reports the allocated revision to the event sink or returns it in the allocator result position (no leak, no constant/other value in its place)", 10)
	res.rule("C04-R2", "in the event sink every path with a non-zero revision reaches the slot store (or aborts)", 1)
	res.rule("C04-R3", "in the sequencer every path from a consumed slot to the next slot load passes through TSO.Commit of that slot's revision and through the store that clears the slot", 2)
	res.rule("C04-R13", "a wake-up of the sequencer (or of any goroutine that sleeps on a channel field) is not lost: a send that does not block (select with default) goes to a buffered channel, or its receiver does not wait with a plain receive", 1)
	res.rule("C04-R12", "an allocated revision is reported to the event sink at most once: no path leads from a sink call to another sink call with the same revision value", 4)
	res.rule("C04-R4", "at every sink call the revision comes from an allocator call that already returned, and valid is exactly (err == nil) for the error of that same call", 4)
	res.rule("C04-R7", "the revision reads are served at never moves backwards: the committed counter is written only by Init and by a guarded raise in Commit (C02-R1) - a late value (a follower's sync overtaken by the node's own start as leader) cannot push it below acknowledged writes", 2)
	res.rule("C04-R6", "neither the sequencer nor the hub it feeds can block itself: no lock is acquired while the same goroutine holds it (C19-R5)", 1)
	res.rule("C04-R5", "TSO.Commit / Backend.SetCurrentRevision are called only from the sequencer, the leader-start callback, the follower revision sync and the etcd shim pass-through", 3)

	a := &allocInfo{p: p, r: r}
	a.compute()

	// R1
	prim := 0
	for _, f := range p.AllFuncs {
		for _, s := range a.sitesIn(f) {
			if s.prim {
				prim++
			}
			o := a.analyseSite(f, s)
			construct := fmt.Sprintf("%s: revision allocated by %s", funcName(f), s.label)
			pos := p.pos(s.call.Pos())
			switch {
			case len(o.violations) > 0:
				for _, v := range o.violations {
					res.bad("C04-R1", construct, p.pos(o.pos), v)
				}
			case o.transferIdx >= 0:
				// obligation moves to the callers: there must be at least one resolved caller
				p.buildCallersLite()
				n := len(p.staticCallers[f])
				if n == 0 {
					res.und("C04-R1", construct, pos, "function returns an allocated revision but has no resolved caller to take over the obligation")
				} else {
					res.ok("C04-R1", construct, pos, fmt.Sprintf("returned in result #%d on all %d non-exempt returns; obligation moves to %d call site(s)", o.transferIdx, o.returns, n))
				}
			default:
				res.ok("C04-R1", construct, pos, fmt.Sprintf("reported to the event sink on every path (%d sink call(s) cut all paths to a return)", o.viaSink))
			}
		}
	}
	// R1 (converse): what a summarised allocator returns in its revision position is an allocated revision or 0 - never
	// some other revision (the committed one, the client's): the sink would file the outcome under a revision that was
	// not allocated for it, i.e. into a slot the sequencer has consumed already or will consume for another write
	for f, idx := range a.allocRet {
		if f.Blocks == nil {
			continue
		}
		n := 0
		for _, b := range f.Blocks {
			ret, ok := b.Instrs[len(b.Instrs)-1].(*ssa.Return)
			if !ok || idx >= len(ret.Results) {
				continue
			}
			n++
			var bad ssa.Value
			var walk func(v ssa.Value, d int, seen map[ssa.Value]bool)
			walk = func(v ssa.Value, d int, seen map[ssa.Value]bool) {
				v = resolve(v)
				if v == nil || d > 8 || seen[v] || bad != nil {
					return
				}
				seen[v] = true
				switch x := v.(type) {
				case *ssa.Phi:
					for _, e := range x.Edges {
						walk(e, d+1, seen)
					}
				case *ssa.UnOp:
					// a named result spilled to a cell: the stores that can reach this return
					if cell, ok := x.X.(*ssa.Alloc); ok && x.Op == token.MUL {
						if sts, _, ok := reachingStores(cell, x); ok {
							for _, st := range sts {
								walk(st.Val, d+1, seen)
							}
						}
					}
				case *ssa.Call:
					if p.isCallToMethod(x, r.TSOGetRevision) || p.isCallToMethod(x, r.BGetCur) {
						bad = x
					}
				case *ssa.Parameter:
					if isUint64(x.Type()) {
						bad = x
					}
				}
			}
			walk(ret.Results[idx], 0, map[ssa.Value]bool{})
			construct := fmt.Sprintf("%s: result #%d is an allocated revision or 0 (return in block %d)", funcName(f), idx, b.Index)
			if bad != nil {
				what := "a revision handed in by the caller"
				if _, isCall := bad.(*ssa.Call); isCall {
					what = "the committed revision"
				}
				res.bad("C04-R1", construct, p.pos(ret.Pos()), "the function hands allocated revisions to its callers in this result, but this return puts "+what+" there: the sink then stores the outcome into the slot of a revision that was not allocated for it (a slot already consumed, or another write's), and the committed revision moves backwards or stalls")
			} else {
				res.ok("C04-R1", construct, p.pos(ret.Pos()), "allocated revision, zero, or a value derived from them")
			}
		}
	}
	res.Stats["primitive_allocation_sites"] = prim
	if prim < 2 {
		res.und("C04-R1", "primitive allocation sites", "-", fmt.Sprintf("found %d invoke sites of tso.TSO.Deal, expected at least 2", prim))
	}
	var sums []string
	for f, i := range a.allocRet {
		sums = append(sums, fmt.Sprintf("%s -> result #%d", funcName(f), i))
	}
	sort.Strings(sums)
	res.Stats["allocator_summaries"] = sums

	// R2: sink completeness
	{
		sink := r.Sink
		revParam := sink.Params[r.SinkRevParam+boolToInt(sink.Signature.Recv() != nil)]
		isStore := func(ins ssa.Instruction) bool {
			c, ok := ins.(ssa.CallInstruction)
			if !ok {
				return false
			}
			sc := c.Common().StaticCallee()
			if sc == nil || sc.Name() != "Store" || sc.Signature.Recv() == nil || !isNamed(sc.Signature.Recv().Type(), "sync/atomic", "Value") {
				return false
			}
			mi, ok := c.Common().Args[1].(*ssa.MakeInterface)
			return ok && !isNilConst(mi.X)
		}
		// the store may sit in a helper the sink hands the event to: search the sink's region (its chain)
		rg := &fnRegion{root: sink, descend: func(g *ssa.Function) bool { return r.inSinkChain(g) }}
		ins, _, pathStr := rg.search(&frame{fn: sink}, sink.Blocks[0], 0, superOpts{
			stop: func(i ssa.Instruction, _ *frame) bool { return isStore(i) },
			bad: func(i ssa.Instruction, fr *frame) bool {
				_, ok := i.(*ssa.Return)
				return ok && fr.parent == nil
			},
			skipEdge: func(from *ssa.BasicBlock, si int, fr *frame) bool {
				if fr.parent != nil {
					return false
				}
				cf := edgeFact(edge{from, si})
				if cf.X == nil {
					return false
				}
				x, y := cf.X, cf.Y
				if isZeroConst(x) {
					x, y = y, x
				}
				if resolve(x) == ssa.Value(revParam) && isZeroConst(y) {
					return (cf.Op == token.EQL && cf.Want) || (cf.Op == token.NEQ && !cf.Want)
				}
				return false
			},
		})
		construct := funcName(sink) + ": slot store"
		if ins != nil {
			res.bad("C04-R2", construct, p.pos(ins.Pos()), "a path with a non-zero revision returns without storing the event into the slot array"+pathStr)
		} else {
			res.ok("C04-R2", construct, p.pos(sink.Pos()), "every return is either guarded by revision == 0 or preceded by the slot store")
		}
	}

	// R3: sequencer progress
	checkSequencerProgress(p, r, res)
	checkSinkAtMostOnce(p, r, res, "C04-R12")
	checkWakeupsNotLost(p, res, "C04-R13")

	// R4: report after commit with the right validity
	nSink := 0
	for _, f := range p.AllFuncs {
		for _, c := range callsIn(f) {
			rev, valid, errv, ok := r.sinkCallArgs(c)
			if !ok {
				continue
			}
			if unwrapSynthetic(f) == r.Sink || f.Synthetic != "" {
				continue
			}
			nSink++
			construct := fmt.Sprintf("%s: sink call #%d", funcName(f), countBefore(f, c, func(x ssa.CallInstruction) bool { _, _, _, k := r.sinkCallArgs(x); return k })+1)
			pos := p.pos(c.Pos())
			// the cases to verify: one (revision, error) pair, or one pair per incoming edge when two writers' results
			// are merged into one report (phi of revisions and phi of errors in the same block)
			type rcase struct {
				rev, err ssa.Value
				pred     *ssa.BasicBlock // nil: the sink call itself must be dominated
			}
			var cases []rcase
			revR, errR := resolve(rev), resolve(errv)
			// sameErr: v denotes the same error value as the err argument (same SSA value, or two loads of one variable
			// reached by the same assignments)
			sameErr := func(v ssa.Value) bool {
				v = resolve(v)
				if v == errR {
					return true
				}
				l1, ok1 := v.(*ssa.UnOp)
				l2, ok2 := errR.(*ssa.UnOp)
				if !ok1 || !ok2 || l1.X != l2.X {
					return false
				}
				cell, ok := l1.X.(*ssa.Alloc)
				if !ok {
					return false
				}
				s1, z1, k1 := reachingStores(cell, l1)
				s2, z2, k2 := reachingStores(cell, l2)
				if !k1 || !k2 || z1 != z2 || len(s1) != len(s2) {
					return false
				}
				for i := range s1 {
					if s1[i] != s2[i] {
						return false
					}
				}
				return true
			}
			if ph, ok := revR.(*ssa.Phi); ok {
				okMerge := false
				if eph, ok2 := errR.(*ssa.Phi); ok2 && eph.Block() == ph.Block() {
					okMerge = true
					for i := range ph.Edges {
						cases = append(cases, rcase{ph.Edges[i], eph.Edges[i], ph.Block().Preds[i]})
					}
				} else if ld, ok2 := errR.(*ssa.UnOp); ok2 {
					// the error lives in a variable (a named result captured by a deferred function): one assignment per edge
					if cell, ok3 := ld.X.(*ssa.Alloc); ok3 {
						if sts, zero, ok4 := reachingStores(cell, ld); ok4 && !zero && len(sts) == len(ph.Edges) {
							okMerge = true
							for i := range ph.Edges {
								pred := ph.Block().Preds[i]
								var hit *ssa.Store
								for _, st := range sts {
									if st.Block() == pred || st.Block().Dominates(pred) {
										if hit != nil {
											okMerge = false
										}
										hit = st
									}
								}
								if hit == nil {
									okMerge = false
									break
								}
								cases = append(cases, rcase{ph.Edges[i], hit.Val, pred})
							}
						}
					}
				}
				if !okMerge {
					res.bad("C04-R4", construct, pos, "the revision argument merges the results of several calls but the err argument does not merge the errors of the same calls")
					continue
				}
			} else {
				cases = append(cases, rcase{rev, errv, nil})
			}
			// valid must be (err == nil) for the very err value passed
			vb, okv := resolve(valid).(*ssa.BinOp)
			goodValid := false
			if okv && vb.Op == token.EQL {
				x, y := vb.X, vb.Y
				if isNilConst(x) {
					x, y = y, x
				}
				goodValid = isNilConst(y) && sameErr(x)
			}
			bad := ""
			var names []string
			for _, cs := range cases {
				call, idx, isEx := extractOf(cs.rev)
				if !isEx {
					bad = "the revision argument is not the result of a call (expected: result of the function that allocated and committed)"
					break
				}
				sc := call.Common().StaticCallee()
				ai, isAlloc := a.allocRet[sc]
				if sc == nil || !isAlloc || ai != idx {
					bad = fmt.Sprintf("the revision argument is result #%d of %v, which is not an allocated revision", idx, call.Common().Value)
					break
				}
				ei := errorResultIndex(sc.Signature)
				if ei < 0 {
					bad = "the allocator has no error result to derive validity from"
					break
				}
				errEx := extractsOf(call)[ei]
				if !goodValid {
					bad = fmt.Sprintf("the valid argument (%s) is not `err == nil` for the error returned by %s", valid.String(), funcName(sc))
					break
				}
				if resolve(cs.err) != errEx {
					bad = fmt.Sprintf("the err argument is not the error returned by %s", funcName(sc))
					break
				}
				if cs.pred == nil && !instrDominates(call, c.(ssa.Instruction)) || cs.pred != nil && !call.Block().Dominates(cs.pred) {
					bad = "the allocator call does not dominate the sink call"
					break
				}
				names = append(names, funcName(sc))
			}
			if bad != "" {
				res.bad("C04-R4", construct, pos, bad)
				continue
			}
			res.ok("C04-R4", construct, pos, fmt.Sprintf("revision, valid == (err == nil) and err all come from the returned call of %s", strings.Join(names, " / ")))
		}
	}
	// no sink call inside a function that directly commits a batch
	for _, f := range p.AllFuncs {
		commits, sinks := false, false
		for _, c := range callsIn(f) {
			if r.is(c, r.BWCommit) && c.Common().IsInvoke() {
				commits = true
			}
			if _, _, _, ok := r.sinkCallArgs(c); ok {
				sinks = true
			}
		}
		if commits && sinks {
			res.bad("C04-R4", funcName(f)+": commit and sink in one function", p.pos(f.Pos()), "a function that commits a batch also reports to the sink; the report must follow the return of the committing function")
		}
	}

	// R5: who may advance
	checkWhoMayAdvance(p, r, res, "C04-R5")
	// R6: no self-deadlock in the pipeline that resolves revisions (C19-R5)
	checkSelfDeadlock(p, p.lockContext(), res, "C04-R6")
	// .. nor can a request leave a lock of that pipeline (event cache, hub) held behind (C19-R5, pairing)
	checkLockPairing(p, res, "C04-R6")
	// R7: the revision reads are served at only moves forward (C02-R1, committed counter)
	{
		sub2 := newResult("C02")
		checkTSOCounters(p, r, sub2, "C02-R1")
		for _, o := range sub2.Obls {
			if strings.Contains(o.Construct, "ommitted") {
				res.add("C04-R7", o.Rule+" "+o.Construct, o.Status, o.Pos, o.Detail)
			}
		}
	}

}

func boolToInt(b bool) int {
	if b {
		return 1
	}
	return 0
}

func countBefore(f *ssa.Function, c ssa.CallInstruction, pred func(ssa.CallInstruction) bool) int {
	n := 0
	for _, x := range callsIn(f) {
		if x == c {
			return n
		}
		if pred(x) {
			n++
		}
	}
	return n
}

// commitReach reports whether call c reaches TSO.Commit (directly or through one repo wrapper such as
// Backend.SetCurrentRevision) and returns the argument that becomes the committed revision.
func (r *Roles) commitArg(c ssa.CallInstruction) (ssa.Value, bool) {
	if r.is(c, r.TSOCommit) {
		return argForSigParam(c, 0), true
	}
	if r.is(c, r.BSetCur) {
		return argForSigParam(c, 0), true
	}
	return nil, false
}

// seqEvent describes the slot load of the sequencer region: the load call, its chain from the goroutine's function
// and the consumed event value (and, for the comma-ok form, the ok value).
type seqEvent struct {
	rg    *fnRegion
	load  ssa.CallInstruction
	frame *frame
	ev    ssa.Value
	okV   ssa.Value
}

func isAtomicValueCall(c ssa.CallInstruction, name string) bool {
	sc := c.Common().StaticCallee()
	return sc != nil && sc.Name() == name && sc.Signature.Recv() != nil && isNamed(sc.Signature.Recv().Type(), "sync/atomic", "Value")
}

func sequencerEvent(p *Prog, r *Roles) (*seqEvent, string) {
	rg := r.SeqRegion
	chs := rg.chainsIn(p, func(ins ssa.Instruction) bool {
		c, ok := ins.(ssa.CallInstruction)
		return ok && isAtomicValueCall(c, "Load")
	})
	if len(chs) != 1 {
		return nil, fmt.Sprintf("expected one slot load in the sequencer, found %d", len(chs))
	}
	se := &seqEvent{rg: rg, load: chs[0].target.(ssa.CallInstruction), frame: frameOfChain(chs[0])}
	for _, ref := range *se.load.Value().Referrers() {
		if ta, ok := ref.(*ssa.TypeAssert); ok {
			if ta.CommaOk {
				for _, rr := range *ta.Referrers() {
					if ex, ok := rr.(*ssa.Extract); ok {
						if ex.Index == 0 {
							se.ev = ex
						} else {
							se.okV = ex
						}
					}
				}
			} else {
				se.ev = ta
			}
		}
	}
	if se.ev == nil {
		return nil, "event value of the slot load not found"
	}
	return se, ""
}

// isEv: v (a value of frame fr) is the consumed event.
func (se *seqEvent) isEv(v ssa.Value, fr *frame) bool { return se.rg.origin(v, fr) == se.ev }

// fieldOfEv: v is a load of field fld of the consumed event.
func (se *seqEvent) fieldOfEv(v ssa.Value, fld *types.Var, fr *frame) bool {
	u, ok := resolve(v).(*ssa.UnOp)
	if !ok || u.Op != token.MUL {
		return false
	}
	fa, ok := u.X.(*ssa.FieldAddr)
	return ok && fieldOf(fa) == fld && se.isEv(fa.X, fr)
}

// absentEdge: on this edge no event was consumed (the load found nil / a foreign value): nothing to commit.
func (se *seqEvent) absentEdge(from *ssa.BasicBlock, succ int, fr *frame) bool {
	if ifOf(from) == nil {
		return false
	}
	cf := edgeFact(edge{from, succ})
	if cf.X != nil {
		x, y := cf.X, cf.Y
		if isNilConst(x) {
			x, y = y, x
		}
		if isNilConst(y) && se.isEv(x, fr) {
			return (cf.Op == token.EQL && cf.Want) || (cf.Op == token.NEQ && !cf.Want)
		}
		return false
	}
	if se.okV != nil && cf.Call == nil && se.rg.origin(cf.Raw, fr) == se.okV {
		return !cf.Want
	}
	return false
}

func checkSequencerProgress(p *Prog, r *Roles, res *Result) {
	seq := r.Sequencer
	se, why := sequencerEvent(p, r)
	if se == nil {
		res.und("C04-R3", funcName(seq), p.pos(seq.Pos()), why)
		return
	}
	revField := p.structField("pkg/backend/common", "WatchEvent", "Revision")
	isCommit := func(ins ssa.Instruction, fr *frame) bool {
		c, ok := ins.(ssa.CallInstruction)
		if !ok {
			return false
		}
		arg, ok := r.commitArg(c)
		return ok && se.fieldOfEv(arg, revField, fr)
	}
	isClear := func(ins ssa.Instruction, fr *frame) bool {
		c, ok := ins.(ssa.CallInstruction)
		if !ok || !isAtomicValueCall(c, "Store") {
			return false
		}
		mi, ok := c.Common().Args[1].(*ssa.MakeInterface)
		return ok && isNilConst(mi.X)
	}
	lp := posOf(se.load.(ssa.Instruction))
	for _, chk := range []struct {
		name string
		stop func(ssa.Instruction, *frame) bool
	}{{"TSO.Commit(event.Revision)", isCommit}, {"slot clear", isClear}} {
		ins, fr, path := se.rg.search(se.frame, lp.b, lp.i+1, superOpts{
			stop: chk.stop,
			bad: func(ins ssa.Instruction, fr *frame) bool {
				if ins == se.load.(ssa.Instruction) {
					return true
				}
				_, isRet := ins.(*ssa.Return)
				return isRet && fr.parent == nil
			},
			skipEdge: se.absentEdge,
		})
		construct := fmt.Sprintf("%s: %s after a consumed slot", funcName(seq), chk.name)
		if ins != nil {
			res.bad("C04-R3", construct, p.pos(ins.Pos()), "a path from the consumed event reaches the next slot load (or returns) without "+chk.name+" (in "+fr.String()+path+")")
		} else {
			res.ok("C04-R3", construct, p.pos(se.load.Pos()), "every path from the consumed event to the next slot load passes through it")
		}
	}
	// exactly one go statement starts the sequencer
	n := 0
	for _, f := range p.AllFuncs {
		for _, b := range f.Blocks {
			for _, ins := range b.Instrs {
				if g, ok := ins.(*ssa.Go); ok {
					if sc := g.Common().StaticCallee(); sc != nil && unwrapSynthetic(sc) == seq {
						n++
					}
				}
			}
		}
	}
	if n != 1 {
		res.bad("C04-R3", funcName(seq)+": started by exactly one go statement", p.pos(seq.Pos()), fmt.Sprintf("found %d go statements starting the sequencer", n))
	} else {
		res.ok("C04-R3", funcName(seq)+": started by exactly one go statement", p.pos(seq.Pos()), "one go site")
	}
}

// checkWhoMayAdvance: who-may-call rule for TSO.Commit, TSO.Init and Backend.SetCurrentRevision.
func checkWhoMayAdvance(p *Prog, r *Roles, res *Result, rule string) {
	syncM := p.ifaceMethod("pkg/server/service/revision", "RevisionSyncer", "SyncReadRevision")
	shimSet := p.ifaceMethod("pkg/server/etcd", "BackendShim", "SetCurrentRevision")
	revBackendSet := p.ifaceMethod("pkg/server/service/revision", "Backend", "SetCurrentRevision")
	allowed := func(f *ssa.Function) (string, bool) {
		if f == r.Sequencer || (r.SeqRegion.descend(f) && p.onlyWithin(f, r.Sequencer, 0)) {
			return "sequencer", true
		}
		for _, impl := range p.implsOf(r.BSetCur) {
			if impl == f {
				return "Backend.SetCurrentRevision implementation", true
			}
		}
		for _, impl := range p.implsOf(syncM) {
			if impl == f {
				return "follower revision sync", true
			}
		}
		for _, impl := range p.implsOf(shimSet) {
			if impl == f {
				return "etcd shim pass-through", true
			}
		}
		if isLeaderStartCallback(p, f) {
			return "leader-start callback", true
		}
		return "", false
	}
	n := 0
	for _, f := range p.AllFuncs {
		if f.Synthetic != "" {
			continue
		}
		for _, c := range callsIn(f) {
			var what string
			switch {
			case r.is(c, r.TSOCommit):
				what = "tso.TSO.Commit"
			case r.is(c, r.TSOInit):
				what = "tso.TSO.Init"
			case r.is(c, r.BSetCur), r.is(c, revBackendSet):
				what = "SetCurrentRevision"
			default:
				continue
			}
			n++
			construct := fmt.Sprintf("%s calls %s", funcName(f), what)
			if what == "tso.TSO.Init" {
				// Init stores both counters unconditionally; the counters of a running node move through the guarded,
				// retried raises of Commit only (C02-R1) - Init behind SetCurrentRevision is a side door around them
				res.bad(rule, construct, p.pos(c.Pos()), "TSO.Init, which stores the committed and the dealt counter unconditionally, is called on a running node: a value that arrives late (a follower's sync overtaken by the node's own start as leader) overwrites both counters, and revisions that are already in the store are handed out again")
				continue
			}
			if why, ok := allowed(f); ok {
				res.ok(rule, construct, p.pos(c.Pos()), "allowed caller: "+why)
			} else {
				res.bad(rule, construct, p.pos(c.Pos()), "the committed/dealt revision counters may be moved only by the sequencer, the leader-start callback, the follower revision sync and the pass-through methods; this is a new caller")
			}
		}
	}
	// the shim pass-through must itself have no caller (calls through the BackendShim interface or static calls)
	for _, f := range p.AllFuncs {
		if f.Synthetic != "" {
			continue
		}
		for _, c := range callsIn(f) {
			if r.is(c, shimSet) {
				res.bad(rule, fmt.Sprintf("%s calls the etcd shim's SetCurrentRevision", funcName(f)), p.pos(c.Pos()), "the etcd shim's SetCurrentRevision pass-through acquired a caller")
			}
		}
	}
}

// leaderCallbacks: the functions stored into the fields of client-go's leaderelection.LeaderCallbacks anywhere in the
// repo (function literals, method values, named functions), by field name.
func (p *Prog) leaderCallbacks() map[string][]*ssa.Function {
	if p.leaderCbs != nil {
		return p.leaderCbs
	}
	out := map[string][]*ssa.Function{}
	for _, g := range p.AllFuncs {
		for _, b := range g.Blocks {
			for _, ins := range b.Instrs {
				st, ok := ins.(*ssa.Store)
				if !ok {
					continue
				}
				fa, ok := st.Addr.(*ssa.FieldAddr)
				if !ok {
					continue
				}
				pt, ok := fa.X.Type().Underlying().(*types.Pointer)
				if !ok || !isNamed(pt.Elem(), "k8s.io/client-go/tools/leaderelection", "LeaderCallbacks") {
					continue
				}
				out[fieldOf(fa).Name()] = append(out[fieldOf(fa).Name()], p.funcValues(st.Val, 0)...)
			}
		}
	}
	p.leaderCbs = out
	return out
}

// isLeaderStartCallback: f is the function stored into leaderelection.LeaderCallbacks.OnStartedLeading.
func isLeaderStartCallback(p *Prog, f *ssa.Function) bool {
	for _, g := range p.leaderCallbacks()["OnStartedLeading"] {
		if g == f {
			return true
		}
	}
	return false
}
