package main

import (
	"go/token"
	"go/types"
	"strings"

	"golang.org/x/tools/go/ssa"
)

// forkJoinConfined recognises the fork/join shape of a task object: a struct T that carries a sync.WaitGroup, whose
// fields are written after construction only by worker goroutines that the driver's region starts with `go` (each
// announcing its end with a deferred Done on T's WaitGroup) - atomically, or into the element of a slice at the index
// the goroutine was handed - and are otherwise touched only after the region has passed Wait on that WaitGroup.
// The happens-before edge is the one the Go memory model gives to WaitGroup: every Done precedes the return of Wait.
// It returns a reason when the shape is established for field fv, and where it is broken otherwise.
func (p *Prog) forkJoinConfined(owner *types.Named, fv *types.Var) (string, bool) {
	st, _ := owner.Underlying().(*types.Struct)
	if st == nil || owner.Obj().Pkg() == nil {
		return "", false
	}
	var wgF *types.Var
	for i := 0; i < st.NumFields(); i++ {
		if isNamed(st.Field(i).Type(), "sync", "WaitGroup") {
			wgF = st.Field(i)
		}
	}
	if wgF == nil {
		return "", false
	}
	sp := p.SSA.Package(owner.Obj().Pkg())
	if sp == nil {
		return "", false
	}
	onWG := func(c ssa.CallInstruction, name string) bool {
		sc := c.Common().StaticCallee()
		if sc == nil || sc.Name() != name || sc.Signature.Recv() == nil || !isNamed(sc.Signature.Recv().Type(), "sync", "WaitGroup") {
			return false
		}
		fa, ok := c.Common().Args[0].(*ssa.FieldAddr)
		return ok && fieldOf(fa) == wgF
	}
	driver, rg := parallelScanDriver(p, sp, func(c ssa.CallInstruction) bool { return onWG(c, "Wait") })
	if driver == nil {
		return "", false
	}
	// workers: what the go statements of the region start; each defers Done on the task's WaitGroup and runs nowhere else
	workers := map[*ssa.Function]bool{}
	p.buildCallers()
	for _, ch := range rg.chainsIn(p, func(ins ssa.Instruction) bool { _, ok := ins.(*ssa.Go); return ok }) {
		g := ch.target.(*ssa.Go)
		for _, w := range p.calleesOf(g) {
			done := false
			for _, c := range callsIn(w) {
				if d, ok := c.(*ssa.Defer); ok && onWG(d, "Done") && d.Block() == w.Blocks[0] {
					done = true
				}
			}
			if !done {
				return "", false
			}
			for _, cs := range p.callers[w] {
				if _, isGo := cs.(*ssa.Go); !isGo {
					return "", false
				}
			}
			if p.addressTaken(w) {
				return "", false
			}
			workers[w] = true
		}
	}
	if len(workers) == 0 {
		return "", false
	}
	outermost := func(f *ssa.Function) *ssa.Function {
		for f.Parent() != nil {
			f = f.Parent()
		}
		return f
	}
	ownIndex := func(ia *ssa.IndexAddr, w *ssa.Function) bool {
		prm, _ := ownIndexOf(ia.Index, w)
		return prm != nil
	}
	afterJoin := func(at ssa.Instruction) bool {
		if !p.onlyWithin(outermost(at.Parent()), driver, 0) {
			return false
		}
		early, _, _ := rg.search(&frame{fn: driver}, driver.Blocks[0], 0, superOpts{
			stop: func(i ssa.Instruction, _ *frame) bool { c, ok := i.(ssa.CallInstruction); return ok && onWG(c, "Wait") },
			bad:  func(i ssa.Instruction, _ *frame) bool { return i == at },
		})
		return early == nil
	}
	n := 0
	for _, fa := range p.fields().addrs[fv] {
		if isFreshObject(fa.X) {
			continue
		}
		n++
		w := outermost(fa.Parent())
		inWorker := workers[w] && fa.Parent() == w
		if !inWorker && !afterJoin(fa) {
			return "", false
		}
		if !inWorker {
			// after the join the goroutine of the driver is the only one left: reads; writes would also be fine
			continue
		}
		for _, ref := range *fa.Referrers() {
			switch x := ref.(type) {
			case *ssa.DebugRef:
			case ssa.CallInstruction:
				if _, ok := isAtomicCall(x); !ok {
					return "", false
				}
			case *ssa.UnOp:
				if x.Op != token.MUL {
					return "", false
				}
				for _, r2 := range *x.Referrers() {
					switch y := r2.(type) {
					case *ssa.DebugRef:
					case *ssa.IndexAddr:
						if !ownIndex(y, w) {
							return "", false
						}
					case *ssa.Call:
						if bi, ok := y.Common().Value.(*ssa.Builtin); !ok || (bi.Name() != "len" && bi.Name() != "cap") {
							return "", false
						}
					default:
						return "", false
					}
				}
			default:
				// a plain store by a worker, or the field's address handed on
				return "", false
			}
		}
	}
	if n == 0 {
		return "", false
	}
	var ws []string
	for w := range workers {
		ws = append(ws, funcName(w))
	}
	return "fork/join: written only by the worker goroutines " + strings.Join(sortedStrings(ws), ", ") + " (atomically or at the index each was handed), which defer Done on " + owner.Obj().Name() + "." + wgF.Name() + "; every other access follows Wait in " + funcName(driver), true
}

func sortedStrings(in []string) []string {
	out := append([]string{}, in...)
	for i := 1; i < len(out); i++ {
		for j := i; j > 0 && out[j] < out[j-1]; j-- {
			out[j], out[j-1] = out[j-1], out[j]
		}
	}
	return out
}

// ownIndexOf: the index value is what the goroutine's function w was handed for itself: one of w's parameters, or a
// field of a by-value struct parameter (conf.idx). It returns the parameter and, in the second case, the field.
func ownIndexOf(idx ssa.Value, w *ssa.Function) (*ssa.Parameter, *types.Var) {
	v := resolve(idx)
	if prm, ok := v.(*ssa.Parameter); ok && prm.Parent() == w {
		return prm, nil
	}
	if fx, ok := v.(*ssa.Field); ok {
		if prm, ok := resolve(fx.X).(*ssa.Parameter); ok && prm.Parent() == w {
			return prm, fieldOfField(fx)
		}
	}
	if ld, ok := v.(*ssa.UnOp); ok && ld.Op == token.MUL {
		if fa, ok := ld.X.(*ssa.FieldAddr); ok {
			if cell, ok := fa.X.(*ssa.Alloc); ok {
				// a by-value struct parameter spilled to a cell: exactly one store, of the parameter
				var src ssa.Value
				n := 0
				for _, ref := range *cell.Referrers() {
					if st, ok := ref.(*ssa.Store); ok && st.Addr == ssa.Value(cell) {
						src = st.Val
						n++
					}
				}
				if prm, ok := src.(*ssa.Parameter); ok && n == 1 && prm.Parent() == w {
					// and no store into that field of the copy
					for _, ref := range *cell.Referrers() {
						if fa2, ok := ref.(*ssa.FieldAddr); ok && fieldOf(fa2) == fieldOf(fa) {
							for _, r2 := range *fa2.Referrers() {
								if st, ok := r2.(*ssa.Store); ok && st.Addr == ssa.Value(fa2) {
									return nil, nil
								}
							}
						}
					}
					return prm, fieldOf(fa)
				}
			}
		}
	}
	return nil, nil
}
