package main

import (
	"fmt"
	"go/constant"
	"go/token"
	"go/types"
	"strings"

	"golang.org/x/tools/go/ssa"
)

// Error preservation: in function f, the error result e of call c must not be lost. From c, every path to a return of
// f on which e can still be non-nil and has not been classified must return an error derived from e (e itself, or a
// constructor / wrapper applied to e). Edges on which e is known nil, or on which e has been classified by
// errors.Is / == sentinel / a type assertion, discharge the path: what is returned after a classification is the
// business of the rules about that class.
type errLoss struct {
	call ssa.CallInstruction
	ret  *ssa.Return
	path []*ssa.BasicBlock
}

func isErrorType(t types.Type) bool {
	return types.Identical(t, types.Universe.Lookup("error").Type())
}

// derivedFromErr: v is e, or is built from e (call with e among its arguments, phi/cell containing such a value).
func derivedFromErr(p *Prog, v, e ssa.Value, depth int, seen map[ssa.Value]bool) bool {
	if v == nil || depth > 8 || seen[v] {
		return false
	}
	seen[v] = true
	for _, x := range valuesThroughClosures(p, v) {
		if x == e {
			return true
		}
		switch y := x.(type) {
		case *ssa.Call:
			// formatting an error into the text of a new one does not keep its class: errors.Is on the result no longer
			// finds the sentinel (github.com/pkg/errors.Errorf never wraps; fmt.Errorf wraps only with %w)
			if formatsWithoutWrapping(y) {
				continue
			}
			for _, a := range y.Common().Args {
				if derivedFromErr(p, a, e, depth+1, seen) {
					return true
				}
			}
		case *ssa.MakeInterface:
			if derivedFromErr(p, y.X, e, depth+1, seen) {
				return true
			}
		case *ssa.Slice:
			// variadic argument slice: look at the stores into its backing array
			if al, ok := y.X.(*ssa.Alloc); ok {
				for _, ref := range *al.Referrers() {
					if ia, ok := ref.(*ssa.IndexAddr); ok {
						for _, r2 := range *ia.Referrers() {
							if st, ok := r2.(*ssa.Store); ok && derivedFromErr(p, st.Val, e, depth+1, seen) {
								return true
							}
						}
					}
				}
			}
		case *ssa.Extract:
			if derivedFromErr(p, y.Tuple, e, depth+1, seen) {
				return true
			}
		}
	}
	return false
}

// errLosses lists the returns of f that lose the error result of call c.
func errLosses(p *Prog, f *ssa.Function, c *ssa.Call, e ssa.Value) []errLoss {
	ei := errorResultIndex(f.Signature)
	if ei < 0 || e == nil {
		return nil
	}
	isE := func(v ssa.Value) bool {
		for _, x := range valuesThroughClosures(p, v) {
			if x == e {
				return true
			}
		}
		return false
	}
	skip := func(from *ssa.BasicBlock, si int) bool {
		if ifOf(from) == nil {
			return false
		}
		for _, cf := range expandFact(edgeFact(edge{from, si}), 0) {
			// e == nil holds on this edge
			if cf.X != nil {
				x, y := cf.X, cf.Y
				if isNilConst(x) {
					x, y = y, x
				}
				if isE(x) && isNilConst(y) && ((cf.Op == token.EQL && cf.Want) || (cf.Op == token.NEQ && !cf.Want)) {
					return true
				}
				if errflowNoClassification {
					continue
				}
				// e == sentinel: classified
				if isE(x) && globalLoad(y) != nil && ((cf.Op == token.EQL && cf.Want) || (cf.Op == token.NEQ && !cf.Want)) {
					return true
				}
				if isE(y) && globalLoad(x) != nil && ((cf.Op == token.EQL && cf.Want) || (cf.Op == token.NEQ && !cf.Want)) {
					return true
				}
			}
			if errflowNoClassification {
				continue
			}
			// errors.Is(e, X) is true: classified
			if x, _, ok := errorsIsCall(cf.Raw); ok && cf.Want && isE(x) {
				return true
			}
			// a library predicate on e answered true (tikverr.IsErrNotFound(e), os.IsNotExist(e) ..): classified
			if pc, ok := resolve(cf.Raw).(*ssa.Call); ok && cf.Want {
				if sc := pc.Common().StaticCallee(); sc != nil && sc.Pkg != nil && !strings.HasPrefix(sc.Pkg.Pkg.Path(), modPath) &&
					sc.Signature.Params().Len() == 1 && sc.Signature.Results().Len() == 1 && isErrorType(sc.Signature.Params().At(0).Type()) {
					if bt, ok := sc.Signature.Results().At(0).Type().Underlying().(*types.Basic); ok && bt.Kind() == types.Bool && isE(pc.Common().Args[0]) {
						return true
					}
				}
			}
			// type assertion on e succeeded: classified
			if ex, ok := resolve(cf.Raw).(*ssa.Extract); ok && cf.Want {
				if ta, ok := ex.Tuple.(*ssa.TypeAssert); ok && isE(ta.X) {
					return true
				}
			}
		}
		return false
	}
	var out []errLoss
	seenRet := map[*ssa.Return]bool{}
	start := posOf(c)
	for {
		ins, path := searchFrom(start.b, start.i+1, searchOpts{
			stop: func(i ssa.Instruction) bool {
				r, ok := i.(*ssa.Return)
				if !ok {
					return false
				}
				if seenRet[r] {
					return true
				}
				if ei < len(r.Results) && errflowAcceptFailure && definitelyNonNilError(r.Results[ei]) {
					return true
				}
				if ei >= len(r.Results) {
					return false
				}
				// a result spilled to a cell (named results of a function with a defer): judge the stores that can
				// reach this return, not every store to the cell
				if ld, ok := r.Results[ei].(*ssa.UnOp); ok && ld.Op == token.MUL {
					if cell, ok := ld.X.(*ssa.Alloc); ok {
						if sts, _, ok := reachingStores(cell, ld); ok && len(sts) > 0 {
							for _, st := range sts {
								if errflowAcceptFailure && definitelyNonNilError(st.Val) {
									return true
								}
								if derivedFromErr(p, st.Val, e, 0, map[ssa.Value]bool{}) {
									return true
								}
							}
							return false
						}
					}
				}
				return derivedFromErr(p, r.Results[ei], e, 0, map[ssa.Value]bool{})
			},
			bad: func(i ssa.Instruction) bool {
				r, ok := i.(*ssa.Return)
				return ok && !seenRet[r]
			},
			skipEdge: skip,
		})
		if ins == nil {
			break
		}
		r := ins.(*ssa.Return)
		seenRet[r] = true
		out = append(out, errLoss{c, r, path})
	}
	return out
}

// checkErrorPreservation evaluates the rule for every call in the functions accepted by inScope whose callee is
// accepted by fallible; obligations are added under `rule`.
func checkErrorPreservation(p *Prog, res *Result, rule string, inScope func(*ssa.Function) bool, fallible func(ssa.CallInstruction) (string, bool), why string) {
	for _, f := range p.AllFuncs {
		if f.Synthetic != "" || !inScope(f) || errorResultIndex(f.Signature) < 0 {
			continue
		}
		cnt := map[string]int{}
		for _, ci := range callsIn(f) {
			c, ok := ci.(*ssa.Call)
			if !ok {
				continue
			}
			name, ok := fallible(c)
			if !ok {
				continue
			}
			sig := c.Common().Signature()
			ei := errorResultIndex(sig)
			if ei < 0 {
				continue
			}
			e := extractsOf(c)[ei]
			cnt[name]++
			construct := fmt.Sprintf("%s: error of %s", funcName(f), name)
			if cnt[name] > 1 {
				construct = fmt.Sprintf("%s #%d", construct, cnt[name])
			}
			if e == nil {
				res.bad(rule, construct, p.pos(c.Pos()), "the error result is discarded at the call: "+why)
				continue
			}
			// a function literal that records the error in a variable of its enclosing function hands it over (the
			// retry idiom: remember the last error, return "not done"); the enclosing function is judged on that variable
			handedOver := false
			if refs := e.Referrers(); refs != nil {
				for _, ref := range *refs {
					if st, ok := ref.(*ssa.Store); ok && st.Val == e {
						if _, isFV := st.Addr.(*ssa.FreeVar); isFV {
							handedOver = true
						}
						// the same idiom with a named type: the attempt object records the last error in a field
						if fa, ok := st.Addr.(*ssa.FieldAddr); ok {
							if prm, ok := resolve(fa.X).(*ssa.Parameter); ok && prm.Parent() == f && paramIndex(prm) == 0 && f.Signature.Recv() != nil {
								handedOver = true
							}
						}
					}
				}
			}
			if handedOver {
				res.ok(rule, construct, p.pos(c.Pos()), "recorded in a variable of the enclosing function / a field of the receiver")
				continue
			}
			losses := errLosses(p, f, c, e)
			if len(losses) == 0 {
				res.ok(rule, construct, p.pos(c.Pos()), "on every path where the error may be non-nil and unclassified it is returned (as is or wrapped)")
				continue
			}
			var where []string
			for _, l := range losses {
				where = append(where, p.pos(l.ret.Pos())+" via "+blockPath(p, l.path))
			}
			res.bad(rule, construct, p.pos(losses[0].ret.Pos()), "a non-nil, unclassified error of this call can be lost: the function returns something else at "+strings.Join(where, "; ")+": "+why)
		}
	}
}

// errflowAcceptFailure: rules that only ask "is a failure turned into success?" set this while they run: a path that
// returns some other, provably non-nil error is then not a loss.
var errflowAcceptFailure bool

// errflowNoClassification: for rules where no class of the error is an acceptable reason to go on as if nothing had
// happened: only the nil edge discharges the error.
var errflowNoClassification bool

// definitelyNonNilError: the value is built by an error constructor (or is a storage sentinel), never nil.
func definitelyNonNilError(v ssa.Value) bool {
	v = resolve(v)
	if mi, ok := v.(*ssa.MakeInterface); ok {
		v = resolve(mi.X)
	}
	switch x := v.(type) {
	case *ssa.Call:
		sc := x.Common().StaticCallee()
		if sc == nil || sc.Pkg == nil {
			return false
		}
		pp := sc.Pkg.Pkg.Path()
		switch {
		case pp == modPath+"/pkg/storage" && strings.HasPrefix(sc.Name(), "NewErr"):
			return true
		case (pp == "errors" || pp == "github.com/pkg/errors") && (sc.Name() == "New" || sc.Name() == "Errorf"):
			return true
		case pp == "fmt" && sc.Name() == "Errorf":
			return true
		}
	case *ssa.UnOp:
		if g := globalLoad(x); g != nil && strings.HasPrefix(g.Name(), "Err") {
			return true
		}
	}
	return false
}

// formatsWithoutWrapping: errors.New / pkg/errors.Errorf / pkg/errors.New, and fmt.Errorf with a constant format that
// has no %w verb.
func formatsWithoutWrapping(c *ssa.Call) bool {
	sc := c.Common().StaticCallee()
	if sc == nil || sc.Pkg == nil {
		return false
	}
	pp := sc.Pkg.Pkg.Path()
	switch {
	case pp == "github.com/pkg/errors" && (sc.Name() == "Errorf" || sc.Name() == "New"):
		return true
	case pp == "errors" && sc.Name() == "New":
		return true
	case pp == "fmt" && sc.Name() == "Errorf":
		if len(c.Common().Args) > 0 {
			if k, ok := resolve(c.Common().Args[0]).(*ssa.Const); ok && k.Value != nil && k.Value.Kind() == constant.String {
				return !strings.Contains(constant.StringVal(k.Value), "%w")
			}
		}
	}
	return false
}
