package main

import (
	"go/token"
	"go/types"

	"golang.org/x/tools/go/ssa"
)

// chanJoin is the channel form of a fork/join: the driver makes a channel, every goroutine it starts sends exactly one
// value on it on every path, and the driver receives in a loop that runs as often as the loop that started the
// goroutines and has no other way out. The instruction that follows that loop is then ordered after the end of the
// reporting part of every worker, which is what WaitGroup.Wait gives in the other form.
type chanJoin struct {
	ch     *ssa.MakeChan
	recv   ssa.Instruction
	joinAt ssa.Instruction // first instruction after the collecting loop (nil when the shape is broken)
	bad    string          // why the shape does not join all workers
	badAt  ssa.Instruction
	und    string // why the shape could not be decided
}

// workerResultRecvs: the receive operations of f on channels f makes itself and that a goroutine started by f sends on.
func (p *Prog) workerResultRecvs(f *ssa.Function) (recvs []ssa.Instruction, chans []*ssa.MakeChan) {
	sentBy := map[*ssa.MakeChan]bool{}
	for _, c := range callsIn(f) {
		g, ok := c.(*ssa.Go)
		if !ok {
			continue
		}
		for _, w := range p.calleesOf(g) {
			for _, s := range sendsOf(w) {
				if mk := p.chanOrigin(s.Chan, g); mk != nil && mk.Parent() == f {
					sentBy[mk] = true
				}
			}
		}
	}
	if len(sentBy) == 0 {
		return nil, nil
	}
	for _, b := range f.Blocks {
		for _, ins := range b.Instrs {
			switch x := ins.(type) {
			case *ssa.UnOp:
				if x.Op == token.ARROW {
					if mk, ok := p.resolveDeep(x.X).(*ssa.MakeChan); ok && sentBy[mk] {
						recvs = append(recvs, x)
						chans = append(chans, mk)
					}
				}
			case *ssa.Select:
				for _, st := range x.States {
					if st.Dir == types.RecvOnly {
						if mk, ok := p.resolveDeep(st.Chan).(*ssa.MakeChan); ok && sentBy[mk] {
							recvs = append(recvs, x)
							chans = append(chans, mk)
						}
					}
				}
			}
		}
	}
	return
}

func sendsOf(f *ssa.Function) []*ssa.Send {
	var out []*ssa.Send
	for _, b := range f.Blocks {
		for _, ins := range b.Instrs {
			if s, ok := ins.(*ssa.Send); ok {
				out = append(out, s)
			}
		}
	}
	return out
}

// chanOrigin: the make(chan) a channel operand of a goroutine body denotes: a captured variable of the starting
// function, or the argument the go statement passes for a parameter.
func (p *Prog) chanOrigin(v ssa.Value, g *ssa.Go) *ssa.MakeChan {
	v = p.resolveDeep(v)
	if prm, ok := v.(*ssa.Parameter); ok && g != nil {
		if a := goActual(g, prm); a != nil {
			v = p.resolveDeep(a)
		}
	}
	mk, _ := v.(*ssa.MakeChan)
	return mk
}

// loopOf: the blocks of the innermost cycle structure through b (all blocks that reach b and are reached from b).
func loopOf(b *ssa.BasicBlock) map[*ssa.BasicBlock]bool {
	fwd := map[*ssa.BasicBlock]bool{}
	var walk func(x *ssa.BasicBlock)
	walk = func(x *ssa.BasicBlock) {
		for _, s := range x.Succs {
			if !fwd[s] {
				fwd[s] = true
				walk(s)
			}
		}
	}
	walk(b)
	if !fwd[b] {
		return nil
	}
	bwd := map[*ssa.BasicBlock]bool{}
	var back func(x *ssa.BasicBlock)
	back = func(x *ssa.BasicBlock) {
		for _, s := range x.Preds {
			if !bwd[s] {
				bwd[s] = true
				back(s)
			}
		}
	}
	back(b)
	out := map[*ssa.BasicBlock]bool{}
	for x := range fwd {
		if bwd[x] {
			out[x] = true
		}
	}
	return out
}

// countedExit: the exits of a loop, split into the one taken when its counting condition `i < n` fails (with n) and
// the others.
func countedExit(loop map[*ssa.BasicBlock]bool) (regular *edge, bound ssa.Value, others []edge) {
	for b := range loop {
		for si, s := range b.Succs {
			if loop[s] {
				continue
			}
			e := edge{b, si}
			if iff := ifOf(b); iff != nil && si == 1 && regular == nil {
				if bo, ok := iff.Cond.(*ssa.BinOp); ok && bo.Op == token.LSS {
					ee := e
					regular, bound = &ee, bo.Y
					continue
				}
			}
			others = append(others, e)
		}
	}
	return
}

func sameBound(a, b ssa.Value) bool {
	ra, rb := resolve(a), resolve(b)
	if ra == rb {
		return true
	}
	la, oka := ra.(*ssa.Call)
	lb, okb := rb.(*ssa.Call)
	if oka && okb {
		ba, ok1 := la.Call.Value.(*ssa.Builtin)
		bb, ok2 := lb.Call.Value.(*ssa.Builtin)
		if ok1 && ok2 && ba.Name() == "len" && bb.Name() == "len" {
			return resolve(la.Call.Args[0]) == resolve(lb.Call.Args[0])
		}
	}
	ka, kb := pureKey(ra), pureKey(rb)
	return ka != "" && ka == kb
}

func firstPositioned(b *ssa.BasicBlock) ssa.Instruction {
	for _, ins := range b.Instrs {
		if ins.Pos().IsValid() {
			return ins
		}
	}
	if len(b.Instrs) > 0 {
		return b.Instrs[0]
	}
	return nil
}

// analyseChanJoin decides whether the receive recv of driver f on channel mk joins all goroutines f starts.
func (p *Prog) analyseChanJoin(f *ssa.Function, recv ssa.Instruction, mk *ssa.MakeChan) *chanJoin {
	cj := &chanJoin{ch: mk, recv: recv}
	// the workers and their go statements
	var goSites []*ssa.Go
	for _, c := range callsIn(f) {
		if g, ok := c.(*ssa.Go); ok {
			goSites = append(goSites, g)
		}
	}
	if len(goSites) != 1 {
		cj.und = "the driver has several go statements: which of them the channel joins is not decided"
		return cj
	}
	g := goSites[0]
	for _, w := range p.calleesOf(g) {
		var mine []*ssa.Send
		for _, s := range sendsOf(w) {
			if p.chanOrigin(s.Chan, g) == mk {
				mine = append(mine, s)
			}
		}
		switch {
		case len(mine) != 1:
			cj.bad, cj.badAt = "a worker goroutine reports on the join channel at several places: the driver's count of finished workers is off", firstPositioned(w.Blocks[0])
			return cj
		case loopOf(mine[0].Block()) != nil:
			cj.bad, cj.badAt = "a worker goroutine reports on the join channel inside a loop: the driver's count of finished workers is off", mine[0]
			return cj
		}
		skip, _ := searchFrom(w.Blocks[0], 0, searchOpts{
			stop: func(i ssa.Instruction) bool { return i == ssa.Instruction(mine[0]) },
			bad:  func(i ssa.Instruction) bool { _, ok := i.(*ssa.Return); return ok },
		})
		if skip != nil {
			cj.bad, cj.badAt = "a worker goroutine can return without reporting on the join channel: the driver waits for it forever", skip
			return cj
		}
		// nothing of substance after the report: the send is followed only by the return
		pa := posOf(mine[0])
		late, _ := searchFrom(pa.b, pa.i+1, searchOpts{
			bad: func(i ssa.Instruction) bool {
				switch i.(type) {
				case ssa.CallInstruction, *ssa.Store, *ssa.Send, *ssa.MapUpdate:
					return true
				}
				return false
			},
		})
		if late != nil {
			cj.bad, cj.badAt = "a worker goroutine keeps working after it has reported on the join channel: the driver proceeds while it still runs", late
			return cj
		}
	}
	spawn := loopOf(g.Block())
	collect := loopOf(recv.Block())
	if spawn == nil && collect == nil {
		// one goroutine, one receive
		if !instrDominates(g, recv) {
			cj.und = "the single receive is not ordered after the go statement"
			return cj
		}
		pa := posOf(recv)
		if pa.i+1 < len(pa.b.Instrs) {
			cj.joinAt = pa.b.Instrs[pa.i+1]
		}
		return cj
	}
	if spawn == nil || collect == nil {
		cj.bad, cj.badAt = "the driver starts workers in a loop but collects a single report (or the reverse): it proceeds while workers still run", recv
		return cj
	}
	sreg, sbound, sothers := countedExit(spawn)
	creg, cbound, cothers := countedExit(collect)
	if creg != nil && len(cothers) > 0 {
		at := firstPositioned(cothers[0].from.Succs[cothers[0].succ])
		if at == nil {
			at = recv
		}
		cj.bad, cj.badAt = "the loop that collects the workers' reports can be left before every worker has reported", at
		return cj
	}
	if sreg == nil || creg == nil || len(sothers) > 0 {
		cj.und = "the start loop / the collecting loop is not a counted loop with a single exit"
		return cj
	}
	if !sameBound(sbound, cbound) {
		cj.und = "the collecting loop is not shown to run as often as the loop that starts the workers"
		return cj
	}
	cj.joinAt = firstPositioned(creg.from.Succs[creg.succ])
	return cj
}
