package main

import (
	"fmt"
	"go/constant"
	"go/token"

	"golang.org/x/tools/go/ssa"
)

// checkCompactionRanges: which key ranges a compaction walks. The backend turns the configured prefix and the skipped
// prefixes into a flat list of borders that is sorted and then consumed in consecutive pairs (start, end): the ranges
// are what lies between the prefix borders outside the skipped directories. Decided is the shape that scheme rests
// on, not the strings:
//
//	(a) every prefix contributes exactly two borders, the encoding of the prefix and the encoding of PrefixEnd of the
//	    same prefix (an odd list, or the end of another key, shifts every later pair: skipped directories get compacted
//	    and the directories behind them do not);
//	(b) the list is sorted after the last append and before it is returned;
//	(c) the consumer hands borders[i], borders[i+1] to Scanner.Compact with i stepping by two.
func checkCompactionRanges(p *Prog, r *Roles, res *Result, rule string) {
	bp := p.ssaPkg("pkg/backend")
	scanCompact := p.ifaceMethod("pkg/backend/scanner", "Scanner", "Compact")
	var consumer *ssa.Function
	var ccall ssa.CallInstruction
	for _, f := range p.AllFuncs {
		if f.Pkg != bp || f.Synthetic != "" {
			continue
		}
		for _, c := range callsIn(f) {
			if c.Common().IsInvoke() && c.Common().Method == scanCompact {
				consumer, ccall = f, c
			}
		}
	}
	if consumer == nil {
		res.und(rule, "compaction ranges: consumer", "-", "no call of Scanner.Compact in pkg/backend")
		return
	}
	// (c)
	construct := funcName(consumer) + ": borders are consumed in consecutive pairs"
	elem := func(v ssa.Value) (ssa.Value, ssa.Value, bool) { // slice, index
		ld, ok := resolve(v).(*ssa.UnOp)
		if !ok || ld.Op != token.MUL {
			return nil, nil, false
		}
		ia, ok := ld.X.(*ssa.IndexAddr)
		if !ok {
			return nil, nil, false
		}
		return resolve(ia.X), ia.Index, true
	}
	s1, i1, ok1 := elem(argForSigParam(ccall, 1))
	s2, i2, ok2 := elem(argForSigParam(ccall, 2))
	var ctor *ssa.Function
	switch {
	case !ok1 || !ok2 || s1 != s2:
		res.bad(rule, construct, p.pos(ccall.Pos()), "start and end of a compaction range are not two elements of the border list")
	default:
		// i2 == i1 + 1, i1 a loop counter stepping by 2
		next, okNext := i2.(*ssa.BinOp)
		phi, okPhi := i1.(*ssa.Phi)
		step := int64(0)
		if okPhi {
			for _, e := range phi.Edges {
				if bo, ok := e.(*ssa.BinOp); ok && bo.Op == token.ADD && bo.X == ssa.Value(phi) {
					step, _ = constInt(bo.Y)
				}
			}
		}
		one := int64(0)
		if okNext && next.Op == token.ADD && next.X == i1 {
			one, _ = constInt(next.Y)
		}
		if one == 1 && step == 2 {
			res.ok(rule, construct, p.pos(ccall.Pos()), "Compact(borders[i], borders[i+1]) with i += 2")
		} else {
			res.bad(rule, construct, p.pos(ccall.Pos()), fmt.Sprintf("the range handed to the scanner is not (borders[i], borders[i+1]) with i stepping by two (end offset %d, step %d): ranges overlap the skipped directories or leave gaps", one, step))
		}
		if c, ok := s1.(*ssa.Call); ok {
			ctor = c.Common().StaticCallee()
		}
	}
	if ctor == nil || ctor.Blocks == nil {
		res.und(rule, "compaction ranges: border constructor", p.pos(ccall.Pos()), "the border list is not the result of a function of the repository")
		return
	}
	// (a)
	type border struct {
		app  *ssa.Call
		enc  *ssa.Call
		key  ssa.Value // the prefix value under the conversion
		isUp bool      // through PrefixEnd
	}
	perBlock := map[*ssa.BasicBlock][]border{}
	var order []*ssa.BasicBlock
	var lastAppend ssa.Instruction
	prefixOf := func(v ssa.Value) (ssa.Value, bool, bool) {
		v = resolve(v)
		up := false
		if c, ok := v.(*ssa.Call); ok {
			sc := c.Common().StaticCallee()
			if sc == nil || sc.Pkg != bp || len(c.Common().Args) != 1 {
				return nil, false, false
			}
			up = true
			v = resolve(c.Common().Args[0])
		}
		if cv, ok := v.(*ssa.Convert); ok {
			return resolve(cv.X), up, true
		}
		return v, up, true
	}
	for _, b := range ctor.Blocks {
		for _, ins := range b.Instrs {
			c, ok := ins.(*ssa.Call)
			if !ok {
				continue
			}
			bi, ok := c.Common().Value.(*ssa.Builtin)
			if !ok || bi.Name() != "append" || len(c.Common().Args) != 2 {
				continue
			}
			// appended elements: stores into the variadic array
			sl, ok := c.Common().Args[1].(*ssa.Slice)
			if !ok {
				continue
			}
			arr, ok := sl.X.(*ssa.Alloc)
			if !ok {
				continue
			}
			for _, ref := range *arr.Referrers() {
				ia, ok := ref.(*ssa.IndexAddr)
				if !ok {
					continue
				}
				for _, r2 := range *ia.Referrers() {
					st, ok := r2.(*ssa.Store)
					if !ok {
						continue
					}
					enc, ok := resolve(st.Val).(*ssa.Call)
					if !ok || !r.is(enc, r.EncObj) {
						// the border may be a result of a helper of the package that builds it (one return): judge the
						// encoder call the helper returns, in the helper's frame
						enc = nil
						var hc *ssa.Call
						ridx := 0
						switch x := resolve(st.Val).(type) {
						case *ssa.Extract:
							hc, _ = x.Tuple.(*ssa.Call)
							ridx = x.Index
						case *ssa.Call:
							hc = x
						}
						if hc != nil {
							if h := hc.Common().StaticCallee(); h != nil && h.Blocks != nil && h.Pkg == bp {
								var rets []*ssa.Return
								for _, hb := range h.Blocks {
									if ret, ok := hb.Instrs[len(hb.Instrs)-1].(*ssa.Return); ok && hb.Comment != "recover" {
										rets = append(rets, ret)
									}
								}
								if len(rets) == 1 && ridx < len(rets[0].Results) {
									if e2, ok := resolve(rets[0].Results[ridx]).(*ssa.Call); ok && r.is(e2, r.EncObj) {
										enc = e2
									}
								}
							}
						}
						if enc == nil {
							continue
						}
					}
					k, up, ok := prefixOf(argForSigParam(enc, 0))
					if !ok {
						k = nil
					}
					if _, seen := perBlock[b]; !seen {
						order = append(order, b)
					}
					perBlock[b] = append(perBlock[b], border{c, enc, k, up})
					lastAppend = c
				}
			}
		}
	}
	if len(order) == 0 {
		res.und(rule, funcName(ctor)+": borders", p.pos(ctor.Pos()), "no encoded border is appended")
		return
	}
	for bi, b := range order {
		bs := perBlock[b]
		construct := fmt.Sprintf("%s: border group #%d is (prefix, PrefixEnd(prefix))", funcName(ctor), bi+1)
		switch {
		case len(bs) != 2:
			res.bad(rule, construct, p.pos(bs[0].app.Pos()), fmt.Sprintf("%d border(s) are appended per prefix instead of two: the list is consumed in pairs, so every later range is shifted (skipped directories are compacted, others are not)", len(bs)))
		case bs[0].key == nil || bs[0].key != bs[1].key || bs[0].isUp == bs[1].isUp:
			res.bad(rule, construct, p.pos(bs[1].app.Pos()), "the two borders of a prefix are not the encoding of the prefix and of the upper bound of that same prefix")
		case !isZeroConst(argForSigParam(bs[0].enc, 1)) || !isZeroConst(argForSigParam(bs[1].enc, 1)):
			res.bad(rule, construct, p.pos(bs[0].app.Pos()), "a range border is encoded with a non-zero revision: the index record (revision 0) of the first key of a range falls outside it")
		default:
			res.ok(rule, construct, p.pos(bs[0].app.Pos()), "Encode(k, 0) and Encode(upper(k), 0) of the same k")
		}
	}
	// (d) every prefix is made a directory before it is encoded: the configured string itself where it was found to end
	// in "/", the string plus "/" where it was found not to - under no other condition. (A prefix used as it is without
	// the test, e.g. an empty one, gives borders that enclose what should be outside; a "/" appended to a prefix that
	// has one gives a directory nothing lives in, and the skipped directory is compacted.)
	{
		isSlash := func(v ssa.Value) bool {
			k, ok := resolve(v).(*ssa.Const)
			return ok && k.Value != nil && k.Value.Kind() == constant.String && constant.StringVal(k.Value) == "/"
		}
		stringsFn := func(v ssa.Value, name string) (*ssa.Call, bool) {
			c, ok := resolve(v).(*ssa.Call)
			if !ok {
				return nil, false
			}
			sc := c.Common().StaticCallee()
			return c, sc != nil && sc.Pkg != nil && sc.Pkg.Pkg.Path() == "strings" && sc.Name() == name
		}
		hasSuffixFact := func(facts []condFact, base ssa.Value, want bool) bool {
			for _, cf := range facts {
				if cf.Call == nil || cf.Want != want {
					continue
				}
				if c, ok := stringsFn(cf.Call, "HasSuffix"); ok && resolve(c.Common().Args[0]) == base && isSlash(c.Common().Args[1]) {
					return true
				}
			}
			return false
		}
		// the facts that hold when control enters block `to` from block `at` (at == nil: the facts dominating `to`)
		factsOn := func(at, to *ssa.BasicBlock) []condFact {
			if at == nil {
				return dominatingFacts(to)
			}
			fs := dominatingFacts(at)
			if ifOf(at) != nil && to != nil {
				for si, sc := range at.Succs {
					if sc == to && at.Succs[1-si] != to {
						fs = append(fs, expandFact(edgeFact(edge{at, si}), 0)...)
					}
				}
			}
			return fs
		}
		var judge func(v ssa.Value, at, to *ssa.BasicBlock, depth int) (string, bool)
		judge = func(v ssa.Value, at, to *ssa.BasicBlock, depth int) (string, bool) {
			v = resolve(v)
			if depth > 5 {
				return "the prefix of a border pair is not recognised as a directory", false
			}
			if phi, ok := v.(*ssa.Phi); ok {
				for i, e := range phi.Edges {
					if why, ok := judge(e, phi.Block().Preds[i], phi.Block(), depth+1); !ok {
						return why, false
					}
				}
				return "the string itself where it ends in '/', the string plus '/' where it does not", true
			}
			if bo, ok := v.(*ssa.BinOp); ok && bo.Op == token.ADD && isSlash(bo.Y) {
				base := resolve(bo.X)
				if c, ok := stringsFn(base, "TrimSuffix"); ok && isSlash(c.Common().Args[1]) {
					return "TrimSuffix(s, \"/\") + \"/\"", true
				}
				if c, ok := stringsFn(base, "TrimRight"); ok && isSlash(c.Common().Args[1]) {
					return "TrimRight(s, \"/\") + \"/\"", true
				}
				facts := append(dominatingFacts(bo.Block()), factsOn(at, to)...)
				if hasSuffixFact(facts, base, false) {
					return "s + \"/\" where s was found not to end in '/'", true
				}
				return "a '/' is appended to a prefix that was not found to lack one: a configured prefix that ends in '/' becomes a directory nothing lives in ('a//'), its real directory is no longer skipped and gets compacted", false
			}
			if c, ok := v.(*ssa.Call); ok {
				if sc := c.Common().StaticCallee(); sc != nil && sc.Blocks != nil && sc.Pkg == bp && len(sc.Params) >= 1 && !c.Common().IsInvoke() {
					n := 0
					for _, blk := range sc.Blocks {
						ret, ok := blk.Instrs[len(blk.Instrs)-1].(*ssa.Return)
						if !ok || blk.Comment == "recover" || len(ret.Results) != 1 {
							continue
						}
						n++
						if why, ok := judge(ret.Results[0], nil, blk, depth+1); !ok {
							return why, false
						}
					}
					if n > 0 {
						return "directory form computed by " + funcName(sc), true
					}
				}
			}
			// an element of a list of prefixes that was built earlier in the function: every string put on the list
			if ld, ok := v.(*ssa.UnOp); ok && ld.Op == token.MUL {
				if ia, ok := ld.X.(*ssa.IndexAddr); ok {
					type elemAt struct {
						v  ssa.Value
						at *ssa.BasicBlock
					}
					var elems []elemAt
					seen := map[ssa.Value]bool{}
					complete := true
					var collect func(sv ssa.Value, d int)
					collect = func(sv ssa.Value, d int) {
						sv = resolve(sv)
						if seen[sv] || d > 8 {
							return
						}
						seen[sv] = true
						switch x := sv.(type) {
						case *ssa.Const:
							if x.Value != nil {
								complete = false
							}
						case *ssa.MakeSlice:
							if n, ok := constInt(x.Len); !ok || n != 0 {
								complete = false
							}
						case *ssa.Phi:
							for _, e := range x.Edges {
								collect(e, d+1)
							}
						case *ssa.Call:
							bi, ok := x.Common().Value.(*ssa.Builtin)
							if !ok || bi.Name() != "append" || len(x.Common().Args) != 2 {
								complete = false
								return
							}
							collect(x.Common().Args[0], d+1)
							sl, ok := x.Common().Args[1].(*ssa.Slice)
							if !ok {
								complete = false
								return
							}
							arr, ok := sl.X.(*ssa.Alloc)
							if !ok {
								complete = false // append(list, other...): strings taken over as they are
								return
							}
							for _, ref := range *arr.Referrers() {
								if ia2, ok := ref.(*ssa.IndexAddr); ok {
									for _, r2 := range *ia2.Referrers() {
										if st, ok := r2.(*ssa.Store); ok {
											elems = append(elems, elemAt{st.Val, st.Block()})
										}
									}
								}
							}
						default:
							complete = false
						}
					}
					collect(ia.X, 0)
					if complete && len(elems) > 0 {
						for _, e := range elems {
							if why, ok := judge(e.v, nil, e.at, depth+1); !ok {
								return why, false
							}
						}
						return "every string put on the list of prefixes is a directory", true
					}
				}
			}
			if hasSuffixFact(factsOn(at, to), v, true) {
				return "the string itself, found to end in '/'", true
			}
			return "a prefix is encoded as it is on a path where it was not found to end in '/': the borders of that prefix are not those of a directory (an empty prefix yields the borders of the whole key space's first byte), and what lies between them and the neighbouring borders is compacted or spared wrongly", false
		}
		for bi, b := range order {
			bs := perBlock[b]
			if len(bs) == 0 || bs[0].key == nil {
				continue
			}
			construct := fmt.Sprintf("%s: prefix of border group #%d is a directory", funcName(ctor), bi+1)
			if why, ok := judge(bs[0].key, nil, b, 0); ok {
				res.ok(rule, construct, p.pos(bs[0].app.Pos()), why)
			} else {
				res.bad(rule, construct, p.pos(bs[0].app.Pos()), why)
			}
		}
	}
	// (b)
	construct = funcName(ctor) + ": the borders are sorted before they are returned"
	var sortCall ssa.Instruction
	for _, c := range callsIn(ctor) {
		sc := c.Common().StaticCallee()
		if sc == nil || sc.Pkg == nil {
			continue
		}
		pp := sc.Pkg.Pkg.Path()
		if (pp == "sort" && (sc.Name() == "Slice" || sc.Name() == "SliceStable" || sc.Name() == "Sort" || sc.Name() == "Stable")) || (pp == "slices" && (sc.Name() == "SortFunc" || sc.Name() == "SortStableFunc")) {
			if ins, ok := c.(*ssa.Call); ok {
				sortCall = ins
			}
		}
	}
	switch {
	case sortCall == nil:
		res.bad(rule, construct, p.pos(ctor.Pos()), "the border list is not sorted: pairing consecutive borders yields the prefix ranges themselves (start, end of each), i.e. the skipped directories are compacted like everything else, or ranges that overlap")
	case loopOf(sortCall.Block()) != nil || (lastAppend != nil && !instrDominates(lastAppend, sortCall) && loopOf(lastAppend.Block()) == nil):
		res.bad(rule, construct, p.pos(sortCall.Pos()), "the sort does not follow the last append")
	default:
		okAll := true
		for _, b := range ctor.Blocks {
			if ret, ok := b.Instrs[len(b.Instrs)-1].(*ssa.Return); ok && b.Comment != "recover" {
				if !instrDominates(sortCall, ret) {
					okAll = false
				}
			}
		}
		// nothing is appended after the sort
		pa := posOf(sortCall)
		later, _ := searchFrom(pa.b, pa.i+1, searchOpts{bad: func(i ssa.Instruction) bool {
			c, ok := i.(*ssa.Call)
			if !ok {
				return false
			}
			bi, ok := c.Common().Value.(*ssa.Builtin)
			return ok && bi.Name() == "append"
		}})
		if okAll && later == nil {
			res.ok(rule, construct, p.pos(sortCall.Pos()), "sort call after the append loop, dominating every return, no append after it")
		} else {
			res.bad(rule, construct, p.pos(sortCall.Pos()), "a return is not preceded by the sort, or borders are appended after it")
		}
	}
}
