package main

import (
	"fmt"
	"go/token"

	"golang.org/x/tools/go/ssa"
)

// checkCompactionRanges: which key ranges a compaction walks. The backend turns the configured prefix and the skipped
// prefixes into a flat list of borders that is sorted and then consumed in consecutive pairs (start, end): the ranges
// are what lies between the prefix borders outside the skipped directories. Decided is the shape that scheme rests
// on, not the strings:
//
//	(a) every prefix contributes exactly two borders, the encoding of the prefix and the encoding of PrefixEnd of the
//	    same prefix (an odd list, or the end of another key, shifts every later pair: skipped directories get compacted
//	    and the directories behind them do not);
//	(b) the list is sorted after the last append and before it is returned;
//	(c) the consumer hands borders[i], borders[i+1] to Scanner.Compact with i stepping by two.
func checkCompactionRanges(p *Prog, r *Roles, res *Result, rule string) {
	bp := p.ssaPkg("pkg/backend")
	scanCompact := p.ifaceMethod("pkg/backend/scanner", "Scanner", "Compact")
	var consumer *ssa.Function
	var ccall ssa.CallInstruction
	for _, f := range p.AllFuncs {
		if f.Pkg != bp || f.Synthetic != "" {
			continue
		}
		for _, c := range callsIn(f) {
			if c.Common().IsInvoke() && c.Common().Method == scanCompact {
				consumer, ccall = f, c
			}
		}
	}
	if consumer == nil {
		res.und(rule, "compaction ranges: consumer", "-", "no call of Scanner.Compact in pkg/backend")
		return
	}
	// (c)
	construct := funcName(consumer) + ": borders are consumed in consecutive pairs"
	elem := func(v ssa.Value) (ssa.Value, ssa.Value, bool) { // slice, index
		ld, ok := resolve(v).(*ssa.UnOp)
		if !ok || ld.Op != token.MUL {
			return nil, nil, false
		}
		ia, ok := ld.X.(*ssa.IndexAddr)
		if !ok {
			return nil, nil, false
		}
		return resolve(ia.X), ia.Index, true
	}
	s1, i1, ok1 := elem(argForSigParam(ccall, 1))
	s2, i2, ok2 := elem(argForSigParam(ccall, 2))
	var ctor *ssa.Function
	switch {
	case !ok1 || !ok2 || s1 != s2:
		res.bad(rule, construct, p.pos(ccall.Pos()), "start and end of a compaction range are not two elements of the border list")
	default:
		// i2 == i1 + 1, i1 a loop counter stepping by 2
		next, okNext := i2.(*ssa.BinOp)
		phi, okPhi := i1.(*ssa.Phi)
		step := int64(0)
		if okPhi {
			for _, e := range phi.Edges {
				if bo, ok := e.(*ssa.BinOp); ok && bo.Op == token.ADD && bo.X == ssa.Value(phi) {
					step, _ = constInt(bo.Y)
				}
			}
		}
		one := int64(0)
		if okNext && next.Op == token.ADD && next.X == i1 {
			one, _ = constInt(next.Y)
		}
		if one == 1 && step == 2 {
			res.ok(rule, construct, p.pos(ccall.Pos()), "Compact(borders[i], borders[i+1]) with i += 2")
		} else {
			res.bad(rule, construct, p.pos(ccall.Pos()), fmt.Sprintf("the range handed to the scanner is not (borders[i], borders[i+1]) with i stepping by two (end offset %d, step %d): ranges overlap the skipped directories or leave gaps", one, step))
		}
		if c, ok := s1.(*ssa.Call); ok {
			ctor = c.Common().StaticCallee()
		}
	}
	if ctor == nil || ctor.Blocks == nil {
		res.und(rule, "compaction ranges: border constructor", p.pos(ccall.Pos()), "the border list is not the result of a function of the repository")
		return
	}
	// (a)
	type border struct {
		app  *ssa.Call
		enc  *ssa.Call
		key  ssa.Value // the prefix value under the conversion
		isUp bool      // through PrefixEnd
	}
	perBlock := map[*ssa.BasicBlock][]border{}
	var order []*ssa.BasicBlock
	var lastAppend ssa.Instruction
	prefixOf := func(v ssa.Value) (ssa.Value, bool, bool) {
		v = resolve(v)
		up := false
		if c, ok := v.(*ssa.Call); ok {
			sc := c.Common().StaticCallee()
			if sc == nil || sc.Pkg != bp || len(c.Common().Args) != 1 {
				return nil, false, false
			}
			up = true
			v = resolve(c.Common().Args[0])
		}
		if cv, ok := v.(*ssa.Convert); ok {
			return resolve(cv.X), up, true
		}
		return v, up, true
	}
	for _, b := range ctor.Blocks {
		for _, ins := range b.Instrs {
			c, ok := ins.(*ssa.Call)
			if !ok {
				continue
			}
			bi, ok := c.Common().Value.(*ssa.Builtin)
			if !ok || bi.Name() != "append" || len(c.Common().Args) != 2 {
				continue
			}
			// appended elements: stores into the variadic array
			sl, ok := c.Common().Args[1].(*ssa.Slice)
			if !ok {
				continue
			}
			arr, ok := sl.X.(*ssa.Alloc)
			if !ok {
				continue
			}
			for _, ref := range *arr.Referrers() {
				ia, ok := ref.(*ssa.IndexAddr)
				if !ok {
					continue
				}
				for _, r2 := range *ia.Referrers() {
					st, ok := r2.(*ssa.Store)
					if !ok {
						continue
					}
					enc, ok := resolve(st.Val).(*ssa.Call)
					if !ok || !r.is(enc, r.EncObj) {
						continue
					}
					k, up, ok := prefixOf(argForSigParam(enc, 0))
					if !ok {
						k = nil
					}
					if _, seen := perBlock[b]; !seen {
						order = append(order, b)
					}
					perBlock[b] = append(perBlock[b], border{c, enc, k, up})
					lastAppend = c
				}
			}
		}
	}
	if len(order) == 0 {
		res.und(rule, funcName(ctor)+": borders", p.pos(ctor.Pos()), "no encoded border is appended")
		return
	}
	for bi, b := range order {
		bs := perBlock[b]
		construct := fmt.Sprintf("%s: border group #%d is (prefix, PrefixEnd(prefix))", funcName(ctor), bi+1)
		switch {
		case len(bs) != 2:
			res.bad(rule, construct, p.pos(bs[0].app.Pos()), fmt.Sprintf("%d border(s) are appended per prefix instead of two: the list is consumed in pairs, so every later range is shifted (skipped directories are compacted, others are not)", len(bs)))
		case bs[0].key == nil || bs[0].key != bs[1].key || bs[0].isUp == bs[1].isUp:
			res.bad(rule, construct, p.pos(bs[1].app.Pos()), "the two borders of a prefix are not the encoding of the prefix and of the upper bound of that same prefix")
		case !isZeroConst(argForSigParam(bs[0].enc, 1)) || !isZeroConst(argForSigParam(bs[1].enc, 1)):
			res.bad(rule, construct, p.pos(bs[0].app.Pos()), "a range border is encoded with a non-zero revision: the index record (revision 0) of the first key of a range falls outside it")
		default:
			res.ok(rule, construct, p.pos(bs[0].app.Pos()), "Encode(k, 0) and Encode(upper(k), 0) of the same k")
		}
	}
	// (b)
	construct = funcName(ctor) + ": the borders are sorted before they are returned"
	var sortCall ssa.Instruction
	for _, c := range callsIn(ctor) {
		sc := c.Common().StaticCallee()
		if sc == nil || sc.Pkg == nil {
			continue
		}
		pp := sc.Pkg.Pkg.Path()
		if (pp == "sort" && (sc.Name() == "Slice" || sc.Name() == "SliceStable" || sc.Name() == "Sort" || sc.Name() == "Stable")) || (pp == "slices" && (sc.Name() == "SortFunc" || sc.Name() == "SortStableFunc")) {
			if ins, ok := c.(*ssa.Call); ok {
				sortCall = ins
			}
		}
	}
	switch {
	case sortCall == nil:
		res.bad(rule, construct, p.pos(ctor.Pos()), "the border list is not sorted: pairing consecutive borders yields the prefix ranges themselves (start, end of each), i.e. the skipped directories are compacted like everything else, or ranges that overlap")
	case loopOf(sortCall.Block()) != nil || (lastAppend != nil && !instrDominates(lastAppend, sortCall) && loopOf(lastAppend.Block()) == nil):
		res.bad(rule, construct, p.pos(sortCall.Pos()), "the sort does not follow the last append")
	default:
		okAll := true
		for _, b := range ctor.Blocks {
			if ret, ok := b.Instrs[len(b.Instrs)-1].(*ssa.Return); ok && b.Comment != "recover" {
				if !instrDominates(sortCall, ret) {
					okAll = false
				}
			}
		}
		// nothing is appended after the sort
		pa := posOf(sortCall)
		later, _ := searchFrom(pa.b, pa.i+1, searchOpts{bad: func(i ssa.Instruction) bool {
			c, ok := i.(*ssa.Call)
			if !ok {
				return false
			}
			bi, ok := c.Common().Value.(*ssa.Builtin)
			return ok && bi.Name() == "append"
		}})
		if okAll && later == nil {
			res.ok(rule, construct, p.pos(sortCall.Pos()), "sort call after the append loop, dominating every return, no append after it")
		} else {
			res.bad(rule, construct, p.pos(sortCall.Pos()), "a return is not preceded by the sort, or borders are appended after it")
		}
	}
}
